package nebula

// C45 - SSH debug file paths stay inside the sandbox.
//
// Oracle: an independent lexical resolver (no path/filepath): a path is split at '/', "" and "."
// are dropped, ".." pops the last name, or - at the top of a relative path - is counted as one
// more step above the (unknown) working directory, or - at the root of an absolute path - is
// ignored. A location is (absolute?, steps above cwd, names). A relative file path is taken
// relative to the sandbox directory (that is what the command handlers document).
// "strictly inside" = same kind (absolute/relative), same number of steps above cwd, and the
// sandbox's names are a proper prefix of the file's names. A relative location that climbs
// higher above the working directory than the sandbox does cannot be shown lexically to be inside
// it, so it counts as outside.
//
// Only the two directions of the statement are asserted:
//   accepted           => strictly inside, and the returned path denotes the same location
//   not strictly inside => refused
// (refusing a path that is inside - e.g. everything when the sandbox is "/" or "." - is not
// claimed to be wrong.)

import (
	"fmt"
	"slices"
	"strings"
	"testing"

	"pgregory.net/rapid"
	"verifkit/vk"
)

const c45PID = "C45"
const c45KeyDotDot = "relative-dotdot-sandbox"
const c45ExcludedMark = "\x00excluded"

type c45Loc struct {
	abs   bool
	ups   int
	names []string
}

func c45Resolve(p string) c45Loc {
	l := c45Loc{abs: strings.HasPrefix(p, "/")}
	for _, seg := range strings.Split(p, "/") {
		switch seg {
		case "", ".":
		case "..":
			if len(l.names) > 0 {
				l.names = l.names[:len(l.names)-1]
			} else if !l.abs {
				l.ups++
			}
		default:
			l.names = append(l.names, seg)
		}
	}
	return l
}

func (l c45Loc) equal(o c45Loc) bool {
	return l.abs == o.abs && l.ups == o.ups && slices.Equal(l.names, o.names)
}

func (l c45Loc) strictlyInside(s c45Loc) bool {
	return l.abs == s.abs && l.ups == s.ups && len(l.names) > len(s.names) && slices.Equal(l.names[:len(s.names)], s.names)
}

// c45FileLoc: where the file path points, given the sandbox (relative paths start at the sandbox).
func c45FileLoc(sandbox, file string) c45Loc {
	if strings.HasPrefix(file, "/") {
		return c45Resolve(file)
	}
	return c45Resolve(sandbox + "/" + file)
}

// class of the recorded finding: the sandbox is a relative path that resolves to nothing but ".."
// steps and the file climbs higher still.
func c45InDotDotClass(s, f c45Loc) bool {
	return !s.abs && s.ups >= 1 && len(s.names) == 0 && !f.abs && f.ups > s.ups
}

// c45Judge applies both directions; returns a description of the violation or "".
func c45Judge(sandbox, file string) (verdict string, accepted, inside bool) {
	s := c45Resolve(sandbox)
	f := c45FileLoc(sandbox, file)
	inside = f.strictlyInside(s)
	if !inside && c45InDotDotClass(s, f) && vk.KnownOpen(c45PID, c45KeyDotDot) {
		vk.Excluded(c45PID, c45KeyDotDot)
		return c45ExcludedMark, false, false
	}
	got, err := sshSanitizeFilePath(sandbox, file)
	accepted = err == nil
	if accepted && !inside {
		return fmt.Sprintf("sandbox %q file %q: accepted as %q, but it resolves to %+v which is not strictly inside the sandbox %+v", sandbox, file, got, f, s), accepted, inside
	}
	if accepted {
		if g := c45Resolve(got); !g.equal(f) {
			return fmt.Sprintf("sandbox %q file %q: returned path %q denotes %+v, the requested file is %+v", sandbox, file, got, g, f), accepted, inside
		}
	}
	return "", accepted, inside
}

var c45Names = []string{"a", "b", "box", "boxes", "bo", "s", "f.prof", "..a", "...", ".a", "a..", " ", "tmp", "etc", "nebula-debug", "é", "日本", "a b", "\\", "..\\x", strings.Repeat("n", 255), strings.Repeat("z", 1024)}

func c45Sep(rt *rapid.T) string {
	return rapid.SampledFrom([]string{"/", "/", "/", "/", "//", "///"}).Draw(rt, "sep")
}

func c45Segments(rt *rapid.T, minSeg, maxSeg int, dotdotWeight int) string {
	n := rapid.IntRange(minSeg, maxSeg).Draw(rt, "nseg")
	var sb strings.Builder
	for i := 0; i < n; i++ {
		if i > 0 {
			sb.WriteString(c45Sep(rt))
		}
		k := rapid.IntRange(0, 9+dotdotWeight).Draw(rt, "segKind")
		switch {
		case k <= 5:
			sb.WriteString(rapid.SampledFrom(c45Names).Draw(rt, "name"))
		case k == 6:
			sb.WriteString(".")
		case k == 7:
			sb.WriteString("")
		default:
			sb.WriteString("..")
		}
	}
	return sb.String()
}

func c45Sandbox(rt *rapid.T) (string, string) {
	kind := rapid.SampledFrom([]string{"abs", "abs", "abs", "abs", "abs-dots", "rel", "rel", "rel-dotdot", "dot", "root"}).Draw(rt, "sbKind")
	var s string
	switch kind {
	case "abs":
		s = "/" + c45Segments(rt, 1, 4, 0)
	case "abs-dots":
		s = "/" + c45Segments(rt, 1, 6, 3)
	case "rel":
		s = c45Segments(rt, 1, 4, 0)
	case "rel-dotdot":
		s = strings.Repeat("../", rapid.IntRange(0, 2).Draw(rt, "ups")) + ".." + rapid.SampledFrom([]string{"", "/", "/box", "/a/.."}).Draw(rt, "tail")
	case "dot":
		s = rapid.SampledFrom([]string{".", "./", "./.", "a/..", "./box"}).Draw(rt, "dot")
	case "root":
		s = rapid.SampledFrom([]string{"/", "//", "/.", "/..", "/a/.."}).Draw(rt, "root")
	}
	if s != "" && rapid.IntRange(0, 3).Draw(rt, "trail") == 0 {
		s += c45Sep(rt)
	}
	if s == "" {
		s = "box"
	}
	return s, kind
}

func c45File(rt *rapid.T, sandbox string) (string, string) {
	kind := rapid.SampledFrom([]string{"rel", "rel", "abs", "sandbox+suffix", "sandbox+suffix", "sandbox+suffix", "sibling", "sibling", "climb-and-return", "abs-climb"}).Draw(rt, "fileKind")
	s := c45Resolve(sandbox)
	last := "box"
	if len(s.names) > 0 {
		last = s.names[len(s.names)-1]
	}
	switch kind {
	case "rel":
		return c45Segments(rt, 0, 6, 2), kind
	case "abs":
		return "/" + c45Segments(rt, 0, 6, 2), kind
	case "sandbox+suffix":
		suf := rapid.SampledFrom([]string{"", "/", "/.", "/f", "//f", "/./f", "/f/", "/..", "/../", "/../..", "/f/..", "/f/../", "/f/../..", "/f/../g", "/a/b/../../c", "/a/../../x", "/../" + last, "/../" + last + "/f", "/../" + last + "es/f", "/.../f", "/..a"}).Draw(rt, "suffix")
		return sandbox + suf, kind
	case "sibling":
		// same parent, name that merely starts with the sandbox's last name (or is a prefix of it)
		sib := rapid.SampledFrom([]string{last + "es", last + "2", last + ".", last + " ", last + "..", last[:len(last)-1]}).Draw(rt, "sib")
		tail := rapid.SampledFrom([]string{"", "/f", "/../" + last + "/f", "/.."}).Draw(rt, "tail")
		trimmed := strings.TrimRight(sandbox, "/")
		if rapid.Bool().Draw(rt, "viaRelative") {
			return "../" + sib + tail, kind
		}
		return trimmed + "/../" + sib + tail, kind
	case "climb-and-return":
		up := rapid.IntRange(1, len(s.names)+2).Draw(rt, "up")
		back := s.names
		if up <= len(s.names) {
			back = s.names[len(s.names)-up:]
		}
		p := strings.Repeat("../", up) + strings.Join(back, "/")
		return p + rapid.SampledFrom([]string{"", "/f", "/../f", "x/f"}).Draw(rt, "tail"), kind
	default: // abs-climb
		return "/" + strings.Repeat("../", rapid.IntRange(0, 3).Draw(rt, "up")) + strings.TrimLeft(sandbox, "/") + rapid.SampledFrom([]string{"", "/f", "/../f"}).Draw(rt, "tail"), kind
	}
}

func TestC45_Sandbox(t *testing.T) {
	vk.Check(t, 150000, func(rt *rapid.T) {
		sandbox, sk := c45Sandbox(rt)
		file, fk := c45File(rt, sandbox)
		verdict, accepted, inside := c45Judge(sandbox, file)
		if verdict == c45ExcludedMark {
			return
		}
		if verdict != "" {
			rt.Fatalf("%s", verdict)
		}
		s := c45Resolve(sandbox)
		last := ""
		if len(s.names) > 0 {
			last = s.names[len(s.names)-1]
		}
		hasDotDot := slices.Contains(strings.Split(file, "/"), "..")
		sibling := false
		if last != "" {
			for _, seg := range strings.Split(file, "/") {
				if seg != last && strings.HasPrefix(seg, last) {
					sibling = true
				}
			}
		}
		nt := hasDotDot || sibling
		outcome := "refused-outside"
		switch {
		case accepted:
			outcome = "accepted-inside"
		case inside:
			outcome = "refused-inside(not claimed)"
		}
		vk.Case(c45PID, sandbox+"\x00"+file, nt, "sandbox:"+sk, "file:"+fk, "outcome:"+outcome,
			fmt.Sprintf("dotdot=%v", hasDotDot), fmt.Sprintf("sibling=%v", sibling))
		if nt && accepted && vk.WantSample(c45PID) {
			vk.Sample(c45PID, map[string]any{"sandbox": sandbox, "file": file, "accepted": accepted})
		}
	})
}

func TestC45_Probe_RelativeDotDotSandbox(t *testing.T) {
	defer vk.Flush()
	sandbox, file := "..", "../escaped"
	got, err := sshSanitizeFilePath(sandbox, file)
	if err != nil {
		return // refused: does not reproduce
	}
	if vk.KnownOpen(c45PID, c45KeyDotDot) {
		vk.ReportKnown(c45PID, c45KeyDotDot)
		return
	}
	t.Fatalf("sandbox %q file %q accepted as %q: two levels above the working directory, the sandbox is one level above", sandbox, file, got)
}

func FuzzC45(f *testing.F) {
	for _, s := range [][2]string{
		{"/s/box", "f"}, {"/s/box", "/s/boxes/f"}, {"/s/box/", "../box/f"}, {"/s/box", "a/../../box/x"}, {"box", "../box2/f"},
		{"/", "etc/passwd"}, {".", "f"}, {"..", "../x"}, {"/s//box/.", "/s/box/./f/"}, {"/s/box", "/s/box"}, {"/s/box", ""}, {"/a/..", "b"},
	} {
		f.Add(s[0], s[1])
	}
	f.Fuzz(func(t *testing.T, sandbox, file string) {
		if sandbox == "" {
			return // no sandbox configured: out of the property's scope
		}
		if verdict, _, _ := c45Judge(sandbox, file); verdict != "" && verdict != c45ExcludedMark {
			t.Fatalf("%s", verdict)
		}
	})
}
