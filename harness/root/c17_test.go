package nebula

// C17 - overlay source and destination addresses are authentic (DESIGN.md section 4).
// One firewall (one conntrack table, one routine-local ConntrackCache) shared by several peers;
// packets with freely drawn addresses; rule sets including allow-everything. Oracle (implication
// only): Drop()==nil  =>  remote address is one of the peer's certified addresses inside the
// node's overlay networks or inside one of the peer's certified unsafe networks, AND the local
// address is one of the node's certified addresses or inside one of its unsafe networks. The
// reference sets are computed from the certificate data alone (fwrRemoteAuthentic /
// fwrLocalAuthentic), not from HostInfo.networks / Firewall.routableNetworks.

import (
	"fmt"
	"net/netip"
	"testing"
	"time"

	"github.com/slackhq/nebula/firewall"
	"pgregory.net/rapid"
	"verifkit/vk"
)

var c17Strangers = []netip.Addr{
	netip.MustParseAddr("10.0.0.0"), netip.MustParseAddr("10.0.0.255"), netip.MustParseAddr("10.0.0.200"), netip.MustParseAddr("10.1.255.255"),
	netip.MustParseAddr("8.8.8.8"), netip.MustParseAddr("0.0.0.0"), netip.MustParseAddr("255.255.255.255"), netip.MustParseAddr("192.168.1.1"),
	netip.MustParseAddr("fd00::"), netip.MustParseAddr("fd00::99"), netip.MustParseAddr("::"), netip.MustParseAddr("ff02::1"), netip.MustParseAddr("::ffff:10.0.0.2"),
	netip.MustParseAddr("172.32.0.1"), netip.MustParseAddr("fd99:0:1::1"),
}

func c17AddrPool(n fwrNode, peers []fwrPeer) []netip.Addr {
	var out []netip.Addr
	for _, nw := range n.Networks {
		out = append(out, nw.Addr(), fwrAddrIn(nw, 9))
	}
	for _, u := range n.Unsafe {
		out = append(out, fwrAddrIn(u, 5), fwrAddrIn(u, 129))
	}
	for _, p := range peers {
		for _, nw := range p.Networks {
			out = append(out, nw.Addr())
		}
		for _, u := range p.Unsafe {
			out = append(out, fwrAddrIn(u, 1), fwrAddrIn(u, 100), fwrAddrIn(u, 200))
		}
	}
	return append(out, c17Strangers...)
}

func TestC17_AddressAuthenticity(t *testing.T) {
	vk.Check(t, 5000, func(rt *rapid.T) {
		n := fwrGenNode(rt)
		np := rapid.IntRange(1, 3).Draw(rt, "nPeers")
		peers := make([]fwrPeer, np)
		hosts := make([]*HostInfo, np)
		for i := range peers {
			peers[i] = fwrGenPeer(rt, n, i, rapid.IntRange(0, 3).Draw(rt, "peerValid") != 0)
			hosts[i] = fwrHost(n, peers[i])
		}
		var rules []fwrRule
		ruleMode := rapid.SampledFrom([]string{"allow-all", "allow-all", "random", "in-only"}).Draw(rt, "ruleMode")
		switch ruleMode {
		case "allow-all":
			rules = []fwrRule{{Incoming: true, Host: "any"}, {Incoming: false, Host: "any"}}
		case "in-only":
			rules = []fwrRule{{Incoming: true, Host: "any"}}
		default:
			rules = fwrGenRuleSet(rt, rapid.IntRange(1, 6).Draw(rt, "nRules"), true, 2)
		}
		fw, err := fwrNewFirewall(n, time.Minute, time.Minute, time.Minute, rules)
		if err != nil {
			rt.Fatalf("rule set refused: %v", err)
		}
		pool := fwrPool(fwrTrusted)
		cache := firewall.ConntrackCache{}
		addrs := c17AddrPool(n, peers)

		// "regardless of connection-tracking state": a fraction of the histories starts from a
		// conntrack table / routine cache that already holds arbitrary tuples
		seeded := rapid.IntRange(0, 3).Draw(rt, "seedConntrack") == 0
		var history []firewall.Packet
		passedBy := map[firewall.Packet]map[int]bool{}
		genPacket := func() firewall.Packet {
			p := firewall.Packet{
				RemoteAddr: rapid.SampledFrom(addrs).Draw(rt, "remote"),
				LocalAddr:  rapid.SampledFrom(addrs).Draw(rt, "local"),
				LocalPort:  rapid.SampledFrom(fwrPorts[:4]).Draw(rt, "lport"),
				RemotePort: rapid.SampledFrom(fwrPorts[:4]).Draw(rt, "rport"),
				Protocol:   rapid.SampledFrom([]uint8{firewall.ProtoTCP, firewall.ProtoUDP, firewall.ProtoICMP}).Draw(rt, "proto"),
			}
			// most packets are authentic for SOME peer (not necessarily the one they are sent
			// through) on one or both sides, so that flows really get established
			mode := rapid.IntRange(0, 5).Draw(rt, "addrMode")
			if mode >= 1 && mode <= 4 {
				if vr := fwrValidRemotes(n, peers[rapid.IntRange(0, np-1).Draw(rt, "authenticFor")]); len(vr) > 0 {
					p.RemoteAddr = rapid.SampledFrom(vr).Draw(rt, "validRemote")
				}
			}
			if mode >= 2 {
				p.LocalAddr = rapid.SampledFrom(fwrValidLocals(n)).Draw(rt, "validLocal")
			}
			return p
		}
		if seeded {
			for i := rapid.IntRange(1, 6).Draw(rt, "nSeeded"); i > 0; i-- {
				p := genPacket()
				history = append(history, p)
				if rapid.Bool().Draw(rt, "seedInCache") {
					cache[p] = struct{}{}
				} else {
					fw.Conntrack.Conns[p] = &conn{Expires: time.Date(2200, 1, 1, 0, 0, 0, 0, time.UTC), incoming: rapid.Bool().Draw(rt, "seedDir"), rulesVersion: fw.rulesVersion}
				}
			}
		}

		steps := rapid.IntRange(4, 24).Draw(rt, "steps")
		for s := 0; s < steps; s++ {
			k := rapid.IntRange(0, np-1).Draw(rt, "peer")
			incoming := rapid.Bool().Draw(rt, "incoming")
			var p firewall.Packet
			replay := len(history) > 0 && rapid.IntRange(0, 2).Draw(rt, "replay") == 0
			if replay {
				p = history[rapid.IntRange(0, len(history)-1).Draw(rt, "replayIdx")]
			} else {
				p = genPacket()
				history = append(history, p)
			}
			var lc firewall.ConntrackCache
			if rapid.Bool().Draw(rt, "useCache") {
				lc = cache
			}
			_, inConn := fw.Conntrack.Conns[p]
			_, inCache := cache[p]
			err := fw.Drop(p, incoming, hosts[k], pool, lc)
			remoteOK := fwrRemoteAuthentic(n, peers[k], p.RemoteAddr)
			localOK := fwrLocalAuthentic(n, p.LocalAddr)
			if err == nil && !(remoteOK && localOK) {
				rt.Fatalf("packet with unauthentic address passed (remoteOK=%v localOK=%v) at step %d:\n packet=%+v incoming=%v via peer %d useCache=%v (tuple tracked=%v cached=%v)\n node=%+v\n peers=%+v\n rules=%v (%s)",
					remoteOK, localOK, s, p, incoming, k, lc != nil, inConn, inCache, n, peers, rules, ruleMode)
			}
			// classification
			otherPeerTracked := false
			for q := range passedBy[p] {
				if q != k {
					otherPeerTracked = true
				}
			}
			if (inConn || inCache) && !passedBy[p][k] {
				otherPeerTracked = true // tracked/cached, but never established through this peer
			}
			certOutside := false
			for _, nw := range peers[k].Networks {
				if nw.Addr() == p.RemoteAddr && !remoteOK {
					certOutside = true
				}
			}
			if err == nil {
				if passedBy[p] == nil {
					passedBy[p] = map[int]bool{}
				}
				passedBy[p][k] = true
			}
			labs := []string{"rules-" + ruleMode}
			if err == nil {
				labs = append(labs, "passed")
			} else {
				labs = append(labs, "dropped")
			}
			if otherPeerTracked {
				labs = append(labs, "tuple-tracked-from-elsewhere")
				if !(remoteOK && localOK) {
					labs = append(labs, "tuple-tracked-from-elsewhere-and-unauthentic")
				}
			}
			if certOutside {
				labs = append(labs, "remote-certified-outside-our-networks")
			}
			if !remoteOK {
				labs = append(labs, "remote-unauthentic")
			}
			if !localOK {
				labs = append(labs, "local-unauthentic")
			}
			if hosts[k].networks == nil {
				labs = append(labs, "host-simple")
			}
			if seeded {
				labs = append(labs, "seeded-conntrack")
			}
			vk.Case("C17", fmt.Sprintf("%s|%v|%+v|%v|%d|%v|%v|%v", fwrEnvKey(n, peers[k]), fwrRulesKey(rules), p, incoming, k, lc != nil, inConn, inCache),
				otherPeerTracked || certOutside, labs...)
			if (otherPeerTracked || certOutside) && vk.WantSample("C17") {
				vk.Sample("C17", map[string]any{"node": fmt.Sprintf("%+v", n), "peer": fmt.Sprintf("%+v", peers[k]), "packet": fmt.Sprintf("%+v", p),
					"incoming": incoming, "passed": err == nil, "trackedFromElsewhere": otherPeerTracked, "certifiedOutside": certOutside, "rules": ruleMode})
			}
		}
	})
}
