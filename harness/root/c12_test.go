package nebula

// C12 - a data packet is delivered at most once (unit level, engine E-sched).
//
// One ConnectionState with a real AEAD key. Its dKey is a harness cipher (c12Gate) that wraps the
// real noiseutil CipherState and PARKS every caller: a Decrypt / VerifyRelay call that passed the
// first critical section (window.Check under decryptLock) stops inside the cipher until the test
// goroutine releases it; only then the real AEAD open runs, followed by the second critical section
// (window.Update). The generated schedule is a sequence of start(p) / release(p) events; at any
// moment exactly one goroutine runs, so the same rapid draws give the same interleaving.
//
// Packets are built with the standard library AEADs (not with noiseutil), so the oracle does not
// depend on the code under test.
//
// Oracle
//   (A) statement level: per message counter at most one nil-error return over all copies; forged
//       packets (any byte changed, re-stamped counter, wrong key) never return nil; a copy of a
//       counter that was already delivered earlier (replay) never returns nil; a delivered
//       plaintext equals the plaintext that was sent.
//   (B) DESIGN.md oracle: the verdict of every packet equals what the set model of the replay
//       window (C11 model: set of accepted counters + max) says when packets are linearised in
//       completion order (a packet refused by Check completes at its start event, every other packet
//       at its release event). This is exact for the real code because the window is monotone: a
//       counter refused by Check can never be accepted by a later Update. (B) is what notices a
//       forged packet burning a counter (Update moved in front of the AEAD open).
//
// The -race variant (TestC12_Parallel) runs real parallel receivers on one ConnectionState.

import (
	"crypto/aes"
	"crypto/cipher"
	"encoding/binary"
	"errors"
	"fmt"
	"log/slog"
	"os"
	"runtime"
	"sort"
	"strings"
	"sync"
	"testing"
	"time"

	"github.com/flynn/noise"
	"github.com/slackhq/nebula/header"
	"github.com/slackhq/nebula/noiseutil"
	"golang.org/x/crypto/chacha20poly1305"
	"pgregory.net/rapid"
	"verifkit/vk"
)

const c12PID = "C12"

// ---- reference model of the replay window: a set and a maximum ---------------------------------

type c12Model struct {
	l, max uint64
	seen   map[uint64]bool
}

func (m *c12Model) ok(i uint64) bool {
	if i == 0 || m.seen[i] {
		return false
	}
	return i > m.max || m.max-i < m.l
}

func (m *c12Model) mark(i uint64) {
	m.seen[i] = true
	if i > m.max {
		m.max = i
	}
}

// ---- independent packet builder -----------------------------------------------------------------

type c12Keys struct {
	chacha bool
	key    [32]byte
	aead   cipher.AEAD // stdlib AEAD used by the harness "sender"
}

func c12NewKeys(chacha bool, fill byte) *c12Keys {
	k := &c12Keys{chacha: chacha}
	for i := range k.key {
		k.key[i] = fill ^ byte(i*7+1)
	}
	if chacha {
		a, err := chacha20poly1305.New(k.key[:])
		if err != nil {
			panic(err)
		}
		k.aead = a
	} else {
		b, err := aes.NewCipher(k.key[:])
		if err != nil {
			panic(err)
		}
		a, err := cipher.NewGCM(b)
		if err != nil {
			panic(err)
		}
		k.aead = a
	}
	return k
}

func (k *c12Keys) nonce(c uint64) []byte {
	nb := make([]byte, 12)
	if k.chacha {
		binary.LittleEndian.PutUint64(nb[4:], c)
	} else {
		binary.BigEndian.PutUint64(nb[4:], c)
	}
	return nb
}

// cipherState builds the real data-plane cipher state of the code under test for this key.
func (k *c12Keys) cipherState() noiseutil.CipherState {
	cf := noiseutil.CipherAESGCM
	if k.chacha {
		cf = noise.CipherChaChaPoly
	}
	s := noise.UnsafeNewCipherState(noise.NewCipherSuite(noise.DH25519, cf, noise.HashSHA256), k.key, 0)
	return noiseutil.NewCipherState(s, cf)
}

// seal builds a wire packet: header || AEAD(plaintext, ad=header), or for relay packets
// header || payload || AEAD(nil, ad=header||payload).
func (k *c12Keys) seal(t header.MessageType, st header.MessageSubType, idx uint32, c uint64, payload []byte) []byte {
	h := make([]byte, header.Len, header.Len+len(payload)+16)
	h[0] = header.Version<<4 | byte(t)&0x0f
	h[1] = byte(st)
	binary.BigEndian.PutUint32(h[4:], idx)
	binary.BigEndian.PutUint64(h[8:], c)
	if t == header.Message && st == header.MessageRelay {
		ad := append(h, payload...)
		return k.aead.Seal(ad, k.nonce(c), nil, ad)
	}
	return k.aead.Seal(h, k.nonce(c), payload, h)
}

// ---- gated cipher -------------------------------------------------------------------------------

type c12Event struct {
	id     int
	parked bool // true: worker id is parked in the cipher; false: worker id finished
	err    error
	out    []byte
}

type c12Gate struct {
	inner   noiseutil.CipherState
	ids     map[*byte]int // &nb[0] of each worker -> worker id
	ev      chan c12Event
	release []chan struct{}
}

func (g *c12Gate) EncryptDanger(out, ad, plaintext []byte, n uint64, nb []byte) ([]byte, error) {
	return nil, errors.New("c12: dKey must not encrypt")
}

func (g *c12Gate) DecryptDanger(out, ad, ciphertext []byte, n uint64, nb []byte) ([]byte, error) {
	id := g.ids[&nb[0]]
	g.ev <- c12Event{id: id, parked: true}
	<-g.release[id]
	return g.inner.DecryptDanger(out, ad, ciphertext, n, nb)
}

func (g *c12Gate) Overhead() int { return g.inner.Overhead() }

var c12ErrDropped = errors.New("c12: dropped before ConnectionState (header/length precondition)")

// c12Receive is the part of readOutsidePackets between the hostmap lookup and the dispatch: the
// caller preconditions of Decrypt / VerifyRelay (valid version+subtype, length >= header+tag) are
// kept; the returned bytes are what would be dispatched.
func c12Receive(cs *ConnectionState, l *slog.Logger, pkt, nb []byte) ([]byte, error) {
	var h header.H
	if err := h.Parse(pkt); err != nil {
		return nil, c12ErrDropped
	}
	if h.Version != header.Version || !h.IsValidSubType() || h.Type == header.Handshake || h.Type == header.RecvError {
		return nil, c12ErrDropped
	}
	if len(pkt) < header.Len+cs.dKey.Overhead() {
		return nil, c12ErrDropped
	}
	if h.Type == header.Message && h.Subtype == header.MessageRelay {
		if err := cs.VerifyRelay(l, h.MessageCounter, pkt, nb); err != nil {
			return nil, err
		}
		return pkt[header.Len : len(pkt)-cs.dKey.Overhead()], nil
	}
	return cs.Decrypt(l, h.MessageCounter, pkt, nb)
}

// ---- case description ---------------------------------------------------------------------------

type c12Pkt struct {
	Counter uint64 // counter in the header as sent
	Orig    int    // index of the genuine packet it was derived from
	Forge   string // "" for a faithful copy
	wire    []byte
	genuine bool
	plain   []byte
}

type c12Genuine struct {
	t       header.MessageType
	st      header.MessageSubType
	counter uint64
	payload []byte
	wire    []byte
}

var c12Kinds = []struct {
	t  header.MessageType
	st header.MessageSubType
}{
	{header.Message, header.MessageNone}, {header.Message, header.MessageNone}, {header.Message, header.MessageRelay},
	{header.Message, header.MessageRelay}, {header.LightHouse, 0}, {header.Test, header.TestRequest},
	{header.Test, header.TestReply}, {header.CloseTunnel, 0}, {header.Control, 0},
}

func c12DrawCounters(rt *rapid.T, l uint64) []uint64 {
	base := rapid.SampledFrom([]uint64{1, 1, 2, 3, 7, l - 2, l - 1, l, l + 1, l + 3, 3*l + 7, 1 << 20, 1 << 40}).Draw(rt, "base")
	n := rapid.IntRange(1, 4).Draw(rt, "ncounters")
	deltas := []int64{0, 0, 1, 1, 2, 3, -1, -2, -3, 62, 63, 64, 65, int64(l) - 2, int64(l) - 1, int64(l), int64(l) + 1, 2 * int64(l), -(int64(l) - 1), -int64(l), -(int64(l) + 1)}
	var out []uint64
	for i := 0; i < n; i++ {
		d := rapid.SampledFrom(deltas).Draw(rt, "delta")
		c := int64(base) + d
		if c < 1 {
			c = 1
		}
		out = append(out, uint64(c))
	}
	return out
}

func c12Forge(rt *rapid.T, keys, wrong *c12Keys, g c12Genuine, pool []uint64) (string, []byte) {
	kind := rapid.SampledFrom([]string{"tag", "body", "hdr", "restamp", "restamp", "grow", "shrink", "wrongkey"}).Draw(rt, "forge")
	w := append([]byte{}, g.wire...)
	switch kind {
	case "tag":
		w[len(w)-1-rapid.IntRange(0, 15).Draw(rt, "pos")] ^= 1 << rapid.IntRange(0, 7).Draw(rt, "bit")
	case "body":
		if len(w) <= header.Len+16 {
			w[len(w)-1] ^= 0x80
			kind = "tag"
		} else {
			w[header.Len+rapid.IntRange(0, len(w)-header.Len-17).Draw(rt, "pos")] ^= 1 << rapid.IntRange(0, 7).Draw(rt, "bit")
		}
	case "hdr":
		// type nibble, subtype, reserved or remote index: authenticated, not the counter
		pos := rapid.SampledFrom([]int{0, 1, 2, 3, 4, 5, 6, 7}).Draw(rt, "pos")
		bit := rapid.IntRange(0, 7).Draw(rt, "bit")
		if pos == 0 {
			bit &= 3 // stay inside the type nibble so the version stays valid
		}
		w[pos] ^= 1 << bit
	case "restamp":
		// old ciphertext with a different counter in the header: another pool counter or a fresh one
		nc := rapid.OneOf(rapid.SampledFrom(pool), rapid.Uint64Range(1, 1<<41)).Draw(rt, "newcounter")
		if nc == g.counter {
			nc = g.counter + 1
		}
		binary.BigEndian.PutUint64(w[8:], nc)
	case "grow":
		w = append(w, byte(rapid.IntRange(0, 255).Draw(rt, "junk")))
	case "shrink":
		if len(w) > header.Len+16 {
			w = w[:len(w)-1]
		} else {
			w[len(w)-2] ^= 4
			kind = "tag"
		}
	case "wrongkey":
		w = wrong.seal(g.t, g.st, 7, g.counter, g.payload)
	}
	return kind, w
}

// ---- the scheduled property ---------------------------------------------------------------------

func TestC12_Schedules(t *testing.T) {
	l := slog.New(slog.DiscardHandler)
	vk.Check(t, 6000, func(rt *rapid.T) {
		chacha := rapid.Bool().Draw(rt, "chacha")
		L := rapid.SampledFrom([]uint64{16, 64, 128, 8192, 8192}).Draw(rt, "window")
		keys := c12NewKeys(chacha, 0x5a)
		wrong := c12NewKeys(chacha, 0xc3)
		pool := c12DrawCounters(rt, L)

		// one genuine packet per distinct counter (a sender never uses a counter twice, C13)
		gen := map[uint64]int{}
		var gens []c12Genuine
		for _, c := range pool {
			if _, ok := gen[c]; ok {
				continue
			}
			k := rapid.SampledFrom(c12Kinds).Draw(rt, "kind")
			pl := rapid.SliceOfN(rapid.Byte(), 0, 24).Draw(rt, "payload")
			g := c12Genuine{t: k.t, st: k.st, counter: c, payload: pl}
			g.wire = keys.seal(k.t, k.st, 7, c, pl)
			gen[c] = len(gens)
			gens = append(gens, g)
		}

		n := rapid.IntRange(2, 8).Draw(rt, "npackets")
		pkts := make([]c12Pkt, n)
		for i := range pkts {
			gi := rapid.IntRange(0, len(gens)-1).Draw(rt, "of")
			g := gens[gi]
			p := c12Pkt{Orig: gi, Counter: g.counter, genuine: true, plain: g.payload}
			if rapid.IntRange(0, 9).Draw(rt, "forged?") < 3 {
				p.Forge, p.wire = c12Forge(rt, keys, wrong, g, pool)
				p.genuine = false
				if len(p.wire) >= header.Len {
					p.Counter = binary.BigEndian.Uint64(p.wire[8:])
				}
			} else {
				p.wire = append([]byte{}, g.wire...)
			}
			pkts[i] = p
		}

		gate := &c12Gate{inner: keys.cipherState(), ids: map[*byte]int{}, ev: make(chan c12Event), release: make([]chan struct{}, n)}
		cs := &ConnectionState{dKey: gate, window: NewBits(L)}
		nbs := make([][]byte, n)
		for i := range nbs {
			nbs[i] = make([]byte, 12)
			gate.ids[&nbs[i][0]] = i
			gate.release[i] = make(chan struct{})
		}
		model := &c12Model{l: L, seen: map[uint64]bool{}}

		wait := func(id int, what string) c12Event {
			select {
			case e := <-gate.ev:
				if e.id != id {
					rt.Fatalf("harness: event of worker %d while waiting for worker %d (%s)", e.id, id, what)
				}
				return e
			case <-time.After(30 * time.Second):
				fmt.Printf("VERIF-INFRA: C12 worker %d did not reach the cipher gate or finish within 30s (%s); a receive path that blocks while another call is inside the cipher cannot be scheduled by this harness\n", id, what)
				vk.Flush()
				os.Exit(3)
				panic("unreachable")
			}
		}

		mode := rapid.SampledFrom([]string{"mixed", "mixed", "burst", "serial"}).Draw(rt, "mode")
		delivered := map[uint64]int{}
		var parked []int
		var sched []string
		next, completed := 0, 0
		maxSame, maxParked := 0, 0
		var labels = map[string]bool{}
		var fail []string

		complete := func(id int, e c12Event, wasParked bool) {
			p := pkts[id]
			want := p.genuine && model.ok(p.Counter)
			got := e.err == nil
			if got {
				delivered[p.Counter]++
				if !p.genuine {
					fail = append(fail, fmt.Sprintf("(A) forged packet %d (%s, counter %d) was accepted", id, p.Forge, p.Counter))
				} else if model.seen[p.Counter] {
					fail = append(fail, fmt.Sprintf("(A) packet %d: counter %d delivered a second time", id, p.Counter))
				} else if !want {
					fail = append(fail, fmt.Sprintf("(B) packet %d: counter %d delivered although it is outside the window (max %d, L %d)", id, p.Counter, model.max, L))
				}
				if p.genuine && string(e.out) != string(p.plain) {
					fail = append(fail, fmt.Sprintf("(A) packet %d: delivered bytes %x differ from the sent plaintext %x", id, e.out, p.plain))
				}
			} else if want {
				fail = append(fail, fmt.Sprintf("(B) packet %d: genuine first copy of in-window counter %d refused: %v", id, p.Counter, e.err))
			}
			if p.genuine && !got {
				where := "at-check"
				if wasParked {
					where = "at-update" // passed Check, lost the race while parked in the cipher
				}
				if model.seen[p.Counter] {
					labels["dup-refused-"+where] = true
				} else {
					labels["out-of-window-refused-"+where] = true
				}
			}
			if want {
				model.mark(p.Counter)
			}
			completed++
		}

		for completed < n {
			doStart := false
			switch {
			case next < n && len(parked) == 0:
				doStart = true
			case next >= n:
				doStart = false
			case mode == "burst":
				doStart = true
			case mode == "serial":
				doStart = false
			default:
				doStart = rapid.IntRange(0, len(parked)).Draw(rt, "act") == 0
			}
			if doStart {
				id := next
				next++
				sched = append(sched, fmt.Sprintf("s%d", id))
				pk := append([]byte{}, pkts[id].wire...)
				go func() {
					out, err := c12Receive(cs, l, pk, nbs[id])
					gate.ev <- c12Event{id: id, err: err, out: append([]byte{}, out...)}
				}()
				e := wait(id, "start")
				if e.parked {
					parked = append(parked, id)
					same := 0
					for _, q := range parked {
						if pkts[q].Counter == pkts[id].Counter && (pkts[q].genuine || pkts[id].genuine) {
							same++
						}
					}
					if same > maxSame {
						maxSame = same
					}
					if len(parked) > maxParked {
						maxParked = len(parked)
					}
				} else {
					if errors.Is(e.err, c12ErrDropped) {
						labels["precondition-drop"] = true
					} else {
						labels["refused-by-check"] = true
					}
					complete(id, e, false)
				}
				continue
			}
			k := 0
			if len(parked) > 1 {
				k = rapid.IntRange(0, len(parked)-1).Draw(rt, "release")
			}
			id := parked[k]
			parked = append(parked[:k], parked[k+1:]...)
			sched = append(sched, fmt.Sprintf("r%d", id))
			gate.release[id] <- struct{}{}
			e := wait(id, "release")
			if e.parked {
				rt.Fatalf("harness: worker %d entered the cipher twice", id)
			}
			complete(id, e, true)
		}

		// (A) restated over the whole run, independently of the per-event bookkeeping
		for c, k := range delivered {
			if k > 1 {
				fail = append(fail, fmt.Sprintf("(A) counter %d delivered %d times", c, k))
			}
		}
		// (B) the window ends up holding exactly the delivered counters
		probe := append([]uint64{}, pool...)
		for _, p := range pkts {
			probe = append(probe, p.Counter)
		}
		for _, c := range probe {
			if got, want := cs.window.Check(l, c), model.ok(c); got != want {
				fail = append(fail, fmt.Sprintf("(B) after the run window.Check(%d)=%v, set model says %v (delivered %v)", c, got, want, delivered))
				break
			}
		}

		desc := c12Describe(chacha, L, gens, pkts, sched)
		if len(fail) > 0 {
			rt.Fatalf("C12 violated:\n  %s\ncase: %s", strings.Join(fail, "\n  "), desc)
		}

		lab := []string{"mode:" + mode, fmt.Sprintf("L:%d", L)}
		if chacha {
			lab = append(lab, "cipher:chacha")
		} else {
			lab = append(lab, "cipher:aesgcm")
		}
		switch {
		case maxSame >= 3:
			lab = append(lab, "same-counter-in-flight:3+")
		case maxSame == 2:
			lab = append(lab, "same-counter-in-flight:2")
		}
		if maxParked >= 4 {
			lab = append(lab, "in-flight:4+")
		}
		for _, p := range pkts {
			if !p.genuine {
				labels["forged:"+p.Forge] = true
			}
			g := gens[p.Orig]
			if g.t == header.Message && g.st == header.MessageRelay {
				labels["relay"] = true
			} else {
				labels["type:"+header.TypeName(g.t)] = true
			}
		}
		for k := range labels {
			lab = append(lab, k)
		}
		sort.Strings(lab)
		vk.Case(c12PID, desc, maxSame >= 2, lab...)
		if maxSame >= 2 && vk.WantSample(c12PID) {
			vk.Sample(c12PID, map[string]any{"kind": "schedule", "case": desc})
		}
	})
}

func c12Describe(chacha bool, L uint64, gens []c12Genuine, pkts []c12Pkt, sched []string) string {
	var b strings.Builder
	fmt.Fprintf(&b, "chacha=%v L=%d genuine=[", chacha, L)
	for i, g := range gens {
		fmt.Fprintf(&b, "%d:%s/%d#%d+%dB ", i, header.TypeName(g.t), g.st, g.counter, len(g.payload))
	}
	b.WriteString("] packets=[")
	for i, p := range pkts {
		if p.genuine {
			fmt.Fprintf(&b, "%d:copy(%d)#%d ", i, p.Orig, p.Counter)
		} else {
			fmt.Fprintf(&b, "%d:%s(%d)#%d ", i, p.Forge, p.Orig, p.Counter)
		}
	}
	fmt.Fprintf(&b, "] schedule=%s", strings.Join(sched, ","))
	return b.String()
}

// ---- real parallel receivers (meant for the -race build) ----------------------------------------

// c12Yield is a pass-through cipher that yields the processor at generated points, so that the
// Go scheduler interleaves the two critical sections of concurrent calls differently per case.
type c12Yield struct {
	inner noiseutil.CipherState
	ids   map[*byte]int
	pat   [][]uint8
	pos   []int
}

func (y *c12Yield) EncryptDanger(out, ad, plaintext []byte, n uint64, nb []byte) ([]byte, error) {
	return nil, errors.New("c12: dKey must not encrypt")
}

func (y *c12Yield) DecryptDanger(out, ad, ciphertext []byte, n uint64, nb []byte) ([]byte, error) {
	id := y.ids[&nb[0]]
	p := y.pat[id]
	k := p[y.pos[id]%len(p)]
	y.pos[id]++
	for i := uint8(0); i < k&3; i++ {
		runtime.Gosched()
	}
	out, err := y.inner.DecryptDanger(out, ad, ciphertext, n, nb)
	for i := uint8(0); i < (k>>2)&3; i++ {
		runtime.Gosched()
	}
	return out, err
}

func (y *c12Yield) Overhead() int { return y.inner.Overhead() }

func TestC12_Parallel(t *testing.T) {
	l := slog.New(slog.DiscardHandler)
	vk.Check(t, 150, func(rt *rapid.T) {
		chacha := rapid.Bool().Draw(rt, "chacha")
		keys := c12NewKeys(chacha, 0x11)
		wrong := c12NewKeys(chacha, 0x77)
		workers := rapid.IntRange(2, 8).Draw(rt, "workers")
		m := rapid.IntRange(20, 400).Draw(rt, "counters") // far below the window length: no genuine packet can fall out of the window
		first := rapid.SampledFrom([]uint64{1, 3, 8190, 1 << 33}).Draw(rt, "first")
		copies := rapid.IntRange(2, workers).Draw(rt, "copies")
		forgeEvery := rapid.IntRange(2, 9).Draw(rt, "forgeEvery")
		jitter := rapid.IntRange(0, 6).Draw(rt, "jitter")

		type item struct {
			wire    []byte
			counter uint64
			genuine bool
		}
		lists := make([][]item, workers)
		for i := 0; i < m; i++ {
			c := first + uint64(i)
			kd := c12Kinds[(i*7+int(first))%len(c12Kinds)]
			payload := []byte(fmt.Sprintf("payload-%d", c))
			w := keys.seal(kd.t, kd.st, 9, c, payload)
			// `copies` workers get a faithful copy of every packet; one more gets a forgery now and then
			w0 := rapid.IntRange(0, workers-1).Draw(rt, "w0")
			for k := 0; k < copies; k++ {
				lists[(w0+k)%workers] = append(lists[(w0+k)%workers], item{wire: append([]byte{}, w...), counter: c, genuine: true})
			}
			if i%forgeEvery == 0 {
				var f []byte
				switch i % 3 {
				case 0:
					f = append([]byte{}, w...)
					f[len(f)-1] ^= 1
				case 1:
					f = wrong.seal(kd.t, kd.st, 9, c, payload)
				default:
					f = append([]byte{}, w...)
					binary.BigEndian.PutUint64(f[8:], c+uint64(m)) // old ciphertext re-stamped with a fresh counter
				}
				lists[(w0+copies)%workers] = append(lists[(w0+copies)%workers], item{wire: f, counter: binary.BigEndian.Uint64(f[8:]), genuine: false})
			}
		}
		// bounded reordering inside every worker's list (generated)
		for wi := range lists {
			ls := lists[wi]
			for i := 0; jitter > 0 && i+1 < len(ls); i++ {
				j := i + rapid.IntRange(0, jitter).Draw(rt, "swap")
				if j < len(ls) {
					ls[i], ls[j] = ls[j], ls[i]
				}
			}
		}
		y := &c12Yield{inner: keys.cipherState(), ids: map[*byte]int{}, pat: make([][]uint8, workers), pos: make([]int, workers)}
		cs := &ConnectionState{dKey: y, window: NewBits(ReplayWindow)}
		nbs := make([][]byte, workers)
		for i := range nbs {
			nbs[i] = make([]byte, 12)
			y.ids[&nbs[i][0]] = i
			y.pat[i] = rapid.SliceOfN(rapid.Uint8Range(0, 15), 1, 6).Draw(rt, "yield")
		}
		// the tunnel has seen everything below `first` already (as after earlier traffic)
		if first > 1 {
			cs.window.Update(l, first-1)
		}

		type res struct {
			counter uint64
			genuine bool
		}
		got := make([][]res, workers)
		var wg sync.WaitGroup
		startGun := make(chan struct{})
		for wi := 0; wi < workers; wi++ {
			wg.Add(1)
			go func() {
				defer wg.Done()
				<-startGun
				for _, it := range lists[wi] {
					if _, err := c12Receive(cs, l, it.wire, nbs[wi]); err == nil {
						got[wi] = append(got[wi], res{it.counter, it.genuine})
					}
				}
			}()
		}
		close(startGun)
		wg.Wait()

		delivered := map[uint64]int{}
		for _, g := range got {
			for _, r := range g {
				if !r.genuine {
					rt.Fatalf("C12 violated: forged packet with counter %d was accepted (workers=%d)", r.counter, workers)
				}
				delivered[r.counter]++
			}
		}
		for c, k := range delivered {
			if k > 1 {
				rt.Fatalf("C12 violated: counter %d delivered %d times by %d parallel receivers (copies=%d)", c, k, workers, copies)
			}
		}
		// every serial order delivers each of the m counters exactly once (all stay inside the window)
		if len(delivered) != m {
			rt.Fatalf("C12 (B): %d of %d genuine in-window counters were delivered (workers=%d copies=%d first=%d)", len(delivered), m, workers, copies, first)
		}
		vk.Case(c12PID, fmt.Sprintf("par/%v/%d/%d/%d/%d/%d/%d/%v", chacha, workers, m, first, copies, forgeEvery, jitter, y.pat), true,
			"parallel", fmt.Sprintf("parallel-workers:%d", workers))
	})
}
