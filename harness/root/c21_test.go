package nebula

// C21 - reject replies (root-package part): rejectInside / rejectOutside behind the REAL newPacket.
//
// A minimal Interface is assembled from harness fakes (tun queue, UDP conn, data-plane cipher that
// records the plaintext it is asked to seal). A generated packet is first classified by newPacket in
// the direction of the path (outgoing for rejectInside, incoming for rejectOutside); only accepted
// packets are passed on - exactly the caller contract in inside.go / outside.go. What reaches the tun
// (inside) or the cipher (outside) is judged by the same reference model as in the iputil part
// (verifkit/rejectref). With the reject switch off nothing may be emitted.

import (
	"bytes"
	"encoding/hex"
	"net/netip"
	"testing"

	"github.com/slackhq/nebula/firewall"
	"github.com/slackhq/nebula/iputil"
	"github.com/slackhq/nebula/overlay/tio"
	"github.com/slackhq/nebula/test"
	"github.com/slackhq/nebula/udp"
	"pgregory.net/rapid"
	"verifkit/pkt"
	"verifkit/pktgen"
	"verifkit/rejectref"
	"verifkit/vk"
)

const (
	c21PID    = "C21"
	c21KeyGt8 = "ipv6-ext-chain-gt8"
)

type c21Tun struct{ writes [][]byte }

func (q *c21Tun) Close() error                { return nil }
func (q *c21Tun) Read() ([]tio.Packet, error) { return nil, nil }
func (q *c21Tun) Write(p []byte) (int, error) {
	q.writes = append(q.writes, append([]byte(nil), p...))
	return len(p), nil
}

type c21Conn struct {
	udp.NoopConn
	sent int
}

func (c *c21Conn) WriteTo(b []byte, addr netip.AddrPort) error { c.sent++; return nil }

type c21Cipher struct{ plain [][]byte }

func (c *c21Cipher) EncryptDanger(out, ad, plaintext []byte, n uint64, nb []byte) ([]byte, error) {
	c.plain = append(c.plain, append([]byte(nil), plaintext...))
	out = append(out, plaintext...)
	return append(out, make([]byte, 16)...), nil
}
func (c *c21Cipher) DecryptDanger(out, ad, ciphertext []byte, n uint64, nb []byte) ([]byte, error) {
	return nil, nil
}
func (c *c21Cipher) Overhead() int { return 16 }

func TestC21_Callers(t *testing.T) {
	l := test.NewLogger()
	vk.Check(t, 20000, func(rt *rapid.T) {
		c := pktgen.Draw(rt, pktgen.Mild)
		b := c.Bytes
		inside := rapid.Bool().Draw(rt, "inside")
		fp := &firewall.ParsedPacket{}
		if err := newPacket(b, !inside, fp); err != nil {
			vk.Case(c21PID, "r"+string(b), false, "root-not-accepted-by-newPacket")
			return
		}
		ref, rerr := pkt.Parse(b)
		if rerr != nil {
			// accepted although the reference cannot resolve it: C20's business, not judged here
			vk.Label(c21PID, "root-accepted-but-unresolved-by-reference")
			return
		}
		// recorded finding: behind more than 8 extension headers the reject path mistakes the 9th
		// extension header for the upper layer; that only shows where TCP, an ICMPv6 error or a
		// non-first fragment is hidden behind it (everything else gets the same ICMPv6 error anyway)
		if w := rejectref.Expect(ref); len(ref.Ext) > 8 && (w.TCP || w.Verdict == rejectref.Silent) && vk.KnownOpen(c21PID, c21KeyGt8) {
			vk.Excluded(c21PID, c21KeyGt8)
			return
		}
		enabled := pktgen.Roll(rt, 5, "enabled") != 0
		var n int
		switch pktgen.Roll(rt, 4, "bufsel") {
		case 0:
			n = 9001 // the mtu-sized buffers of interface.go
		case 1:
			n = 1300
		case 2:
			n = rapid.IntRange(0, 2400).Draw(rt, "buf")
		default:
			n = rapid.IntRange(0, 140).Draw(rt, "buf")
		}
		rejectBuf := bytes.Repeat([]byte{0xa5}, n)
		tun, conn, ciph := &c21Tun{}, &c21Conn{}, &c21Cipher{}
		f := &Interface{l: l, firewall: &Firewall{}, queues: []tio.Queue{tun}, writers: []udp.Conn{conn}, connectionManager: &connectionManager{}}
		orig := append([]byte(nil), b...)
		var reply []byte
		var capOut int
		path := "outside"
		if inside {
			path = "inside"
			f.firewall.OutboundSendReject = enabled
			f.firewall.InboundSendReject = !enabled // the other switch must not matter
			capOut = cap(rejectBuf)
			f.rejectInside(b, rejectBuf, 0)
			if len(tun.writes) > 1 {
				rt.Fatalf("C21 violated: rejectInside wrote %d packets to the tun\npacket=%x", len(tun.writes), b)
			}
			if len(tun.writes) == 1 {
				reply = tun.writes[0]
			}
			if conn.sent != 0 || len(ciph.plain) != 0 {
				rt.Fatalf("C21 violated: rejectInside emitted on the underlay\npacket=%x", b)
			}
		} else {
			f.firewall.InboundSendReject = enabled
			f.firewall.OutboundSendReject = !enabled
			hi := &HostInfo{remoteIndexId: 77, vpnAddrs: []netip.Addr{netip.MustParseAddr("10.9.9.9")}}
			ra := netip.MustParseAddrPort("192.0.2.1:4242")
			hi.remote.Store(&ra)
			ci := &ConnectionState{eKey: ciph}
			hi.ConnectionState = ci
			capOut = n - n/2
			f.rejectOutside(b, ci, hi, make([]byte, 12), rejectBuf, 0)
			if len(ciph.plain) > 1 || conn.sent != len(ciph.plain) {
				rt.Fatalf("C21 violated: rejectOutside sealed %d and sent %d datagrams\npacket=%x", len(ciph.plain), conn.sent, b)
			}
			if len(ciph.plain) == 1 {
				reply = ciph.plain[0]
			}
			if len(tun.writes) != 0 {
				rt.Fatalf("C21 violated: rejectOutside wrote to the tun\npacket=%x", b)
			}
		}
		if !bytes.Equal(orig, b) {
			rt.Fatalf("C21: reject path modified the rejected packet\npacket=%x", orig)
		}
		want := rejectref.Expect(ref)
		labels := []string{"root-" + path, "root-class-" + want.Reason}
		if !enabled {
			if reply != nil {
				rt.Fatalf("C21 violated: a reply was emitted on the %s path although reject replies are disabled\npacket=%x\nreply=%x", path, b, reply)
			}
			vk.Case(c21PID, "d"+path+string(b), false, append(labels, "root-disabled")...)
			return
		}
		if reply != nil && len(reply) == 0 {
			rt.Fatalf("C21 violated: an empty packet was emitted on the %s path\npacket=%x", path, b)
		}
		if err := rejectref.Check(b, ref, reply, capOut, iputil.MaxRejectPacketSize); err != nil {
			rt.Fatalf("C21 violated on the %s path (buffer %d, usable capacity %d): %v\nexpectation=%s/%s\npacket=%s\nreply=%s", path, n, capOut, err,
				want.Verdict, want.Reason, hex.EncodeToString(b), hex.EncodeToString(reply))
		}
		if reply != nil {
			labels = append(labels, "root-replied")
		} else if want.Verdict == rejectref.Reply {
			labels = append(labels, "root-silent-small-buffer")
		} else {
			labels = append(labels, "root-silent")
		}
		odd := len(ref.L4)%2 == 1
		nt := (ref.Version == 4 && ref.HdrLen > 20) || len(ref.Ext) > 0 || odd || ref.Frag || want.Reason == "icmp-error"
		vk.Case(c21PID, "e"+path+string(b), nt, labels...)
	})
}

// Probe of the recorded finding: 9 destination-options headers in front of (a) an ICMPv6 error,
// (b) a TCP SYN. newPacket accepts both (C20 finding of the same name) and the reject path then
// answers the ICMPv6 error / answers TCP with an ICMPv6 error instead of a reset.
func TestC21_Probe_ipv6_ext_chain_gt8(t *testing.T) {
	defer vk.Flush()
	s, d := netip.MustParseAddr("fd00::1"), netip.MustParseAddr("fd00::2")
	nine := make([]pkt.Ext, 9)
	for i := range nine {
		nine[i] = pkt.Ext{Type: pkt.ProtoDestOpts}
	}
	inputs := [][]byte{
		(&pkt.Packet{V6: true, Src: s, Dst: d, TTL: 64, Ext: nine, Proto: pkt.ProtoICMPv6, L4: pkt.ICMP{Type: 1, Code: 4, Payload: make([]byte, 48)}}).Bytes(),
		(&pkt.Packet{V6: true, Src: s, Dst: d, TTL: 64, Ext: nine, Proto: pkt.ProtoTCP, L4: pkt.TCP{SrcPort: 1000, DstPort: 22, Flags: pkt.TCPSyn}}).Bytes(),
	}
	for _, b := range inputs {
		fp := &firewall.ParsedPacket{}
		if err := newPacket(b, true, fp); err != nil {
			continue // not accepted any more: cannot reach the reject path
		}
		ref, rerr := pkt.Parse(b)
		if rerr != nil {
			t.Fatalf("probe input does not parse: %v", rerr)
		}
		reply := iputil.CreateRejectPacket(b, make([]byte, 0, iputil.MaxRejectPacketSize))
		err := rejectref.Check(b, ref, reply, iputil.MaxRejectPacketSize, iputil.MaxRejectPacketSize)
		if err == nil {
			continue
		}
		if vk.KnownOpen(c21PID, c21KeyGt8) {
			vk.ReportKnown(c21PID, c21KeyGt8)
			return
		}
		t.Fatalf("C21 violated (%s): %v\npacket=%x\nreply=%x", c21KeyGt8, err, b, reply)
	}
}
