package nebula

// Shared helper for the firewall properties C16, C17, C18, C19 and C22.
//
// It holds (1) a FLAT reference rule evaluator written from the documented semantics
// (FirewallTable comment: "Proto AND port AND (CA SHA or CA name) AND local CIDR AND (group OR
// groups OR name OR remote CIDR)", the firewall section of examples/config.yml, rule.sanity()
// text, TestFirewall_ICMPPortBehavior) as one loop over the rule list - no nested maps, no
// shortcut paths - and (2) generators for nodes, peers, CA pools, rules and packets over small
// universes chosen so that values collide.
//
// Interpretations written down here (they are what the oracle assumes):
//   - port "any"/0 matches every packet; "fragment" matches exactly the packets with
//     Packet.Fragment set (non-first fragments, which carry no port); a number or range is compared
//     with the node-side port for inbound and the peer-side port for outbound packets.
//   - ICMP/ICMPv6 packets have no port: they match only rules whose port is any; every rule with
//     proto icmp is coerced to port any ("a port specification is ignored if proto is icmp").
//     (TestFirewall_ICMPPortBehavior pins "any proto, some ports" => ICMP still blocked.)
//   - a rule with neither ca_name nor ca_sha accepts every issuer; with both, either may match.
//   - local_cidr "" means: any if the node has no unsafe networks or default_local_cidr_any is
//     set, otherwise the node's certified overlay networks.
//   - the peer clause is "any" when no group/host/cidr is given or when any of them is the
//     literal any; otherwise (all listed groups) OR host name OR remote cidr.

import (
	"fmt"
	"log/slog"
	"net/netip"
	"sort"
	"strings"
	"time"

	"github.com/gaissmai/bart"
	"github.com/slackhq/nebula/cert"
	"github.com/slackhq/nebula/firewall"
	"pgregory.net/rapid"
)

// ---- reference model ------------------------------------------------------------------------

type fwrRule struct {
	Incoming   bool
	Proto      uint8 // firewall.ProtoAny / ProtoTCP / ProtoUDP / ProtoICMP (ProtoICMPv6 is the same class)
	Start, End int32 // as handed to AddRule: 0 any, -1 fragment
	Groups     []string
	Host       string
	CIDR       string
	LocalCIDR  string
	CAName     string
	CASha      string
}

func (r fwrRule) String() string {
	d := "out"
	if r.Incoming {
		d = "in"
	}
	return fmt.Sprintf("{%s proto=%d port=%d-%d groups=%q host=%q cidr=%q local=%q caName=%q caSha=%q}",
		d, r.Proto, r.Start, r.End, r.Groups, r.Host, r.CIDR, r.LocalCIDR, r.CAName, r.CASha)
}

type fwrNode struct {
	Networks        []netip.Prefix
	Unsafe          []netip.Prefix
	DefaultLocalAny bool
}

type fwrPeer struct {
	Name     string
	Groups   []string
	Networks []netip.Prefix
	Unsafe   []netip.Prefix
	Issuer   string
}

// fingerprint -> CA name of the trusted pool
type fwrCAs map[string]string

type fwrClauses struct{ Proto, Port, CA, Local, Peer bool }

func (c fwrClauses) all() bool { return c.Proto && c.Port && c.CA && c.Local && c.Peer }
func (c fwrClauses) misses() (n int, which string) {
	for _, x := range []struct {
		ok bool
		n  string
	}{{c.Proto, "proto"}, {c.Port, "port"}, {c.CA, "ca"}, {c.Local, "local"}, {c.Peer, "peer"}} {
		if !x.ok {
			n++
			which = x.n
		}
	}
	return
}

func fwrIsICMP(p uint8) bool { return p == firewall.ProtoICMP || p == firewall.ProtoICMPv6 }

func fwrPrefixContains(s string, a netip.Addr) bool {
	p, err := netip.ParsePrefix(s)
	if err != nil {
		return false
	}
	return p.Masked().Contains(a)
}

func fwrEvalRule(r fwrRule, n fwrNode, peer fwrPeer, cas fwrCAs, p firewall.Packet, incoming bool) fwrClauses {
	var c fwrClauses
	// protocol
	switch {
	case r.Proto == firewall.ProtoAny:
		c.Proto = true
	case fwrIsICMP(r.Proto):
		c.Proto = fwrIsICMP(p.Protocol)
	default:
		c.Proto = r.Proto == p.Protocol
	}
	// port
	portAny := fwrIsICMP(r.Proto) || (r.Start <= 0 && 0 <= r.End)
	switch {
	case portAny:
		c.Port = true
	case fwrIsICMP(p.Protocol):
		c.Port = false
	case p.Fragment:
		c.Port = r.Start <= -1 && -1 <= r.End
	default:
		port := int32(p.RemotePort)
		if incoming {
			port = int32(p.LocalPort)
		}
		c.Port = port >= 1 && r.Start <= port && port <= r.End
	}
	// issuing CA
	if r.CAName == "" && r.CASha == "" {
		c.CA = true
	} else {
		if r.CASha != "" && peer.Issuer == r.CASha {
			c.CA = true
		}
		if r.CAName != "" && peer.Issuer != "" {
			if name, ok := cas[peer.Issuer]; ok && name == r.CAName {
				c.CA = true
			}
		}
	}
	// local cidr
	switch r.LocalCIDR {
	case "any":
		c.Local = true
	case "":
		if len(n.Unsafe) == 0 || n.DefaultLocalAny {
			c.Local = true
		} else {
			for _, nw := range n.Networks {
				if nw.Masked().Contains(p.LocalAddr) {
					c.Local = true
				}
			}
		}
	default:
		c.Local = fwrPrefixContains(r.LocalCIDR, p.LocalAddr)
	}
	// peer: groups / host / remote cidr
	groupsAny := false
	for _, g := range r.Groups {
		if g == "any" {
			groupsAny = true
		}
	}
	if (len(r.Groups) == 0 && r.Host == "" && r.CIDR == "") || groupsAny || r.Host == "any" || r.CIDR == "any" {
		c.Peer = true
	} else {
		if len(r.Groups) > 0 {
			all := true
			for _, g := range r.Groups {
				has := false
				for _, pg := range peer.Groups {
					if pg == g {
						has = true
					}
				}
				if !has {
					all = false
				}
			}
			if all {
				c.Peer = true
			}
		}
		if r.Host != "" && r.Host == peer.Name {
			c.Peer = true
		}
		if r.CIDR != "" && fwrPrefixContains(r.CIDR, p.RemoteAddr) {
			c.Peer = true
		}
	}
	return c
}

// fwrAllowed: allowed <=> some rule of that direction has all five clauses true.
// deciding = index of the first such rule (-1 if none); nearMiss = name of the single failing
// clause of some same-direction rule that matches all but one clause ("" if none).
func fwrAllowed(rules []fwrRule, n fwrNode, peer fwrPeer, cas fwrCAs, p firewall.Packet, incoming bool) (allowed bool, deciding int, nearMiss string) {
	deciding = -1
	for i, r := range rules {
		if r.Incoming != incoming {
			continue
		}
		c := fwrEvalRule(r, n, peer, cas, p, incoming)
		if c.all() {
			if deciding < 0 {
				deciding = i
			}
			continue
		}
		if k, which := c.misses(); k == 1 && nearMiss == "" {
			nearMiss = which
		}
	}
	return deciding >= 0, deciding, nearMiss
}

// C17 reference sets.
func fwrRemoteAuthentic(n fwrNode, peer fwrPeer, a netip.Addr) bool {
	for _, pn := range peer.Networks {
		if pn.Addr() == a {
			for _, nw := range n.Networks {
				if nw.Masked().Contains(a) {
					return true
				}
			}
		}
	}
	for _, u := range peer.Unsafe {
		if u.Masked().Contains(a) {
			return true
		}
	}
	return false
}

func fwrLocalAuthentic(n fwrNode, a netip.Addr) bool {
	for _, nw := range n.Networks {
		if nw.Addr() == a {
			return true
		}
	}
	for _, u := range n.Unsafe {
		if u.Masked().Contains(a) {
			return true
		}
	}
	return false
}

// ---- building the real objects ----------------------------------------------------------------

var fwrLogger = slog.New(slog.DiscardHandler)

func fwrNodeCert(n fwrNode) *dummyCert {
	return &dummyCert{name: "me", networks: n.Networks, unsafeNetworks: n.Unsafe, issuer: "sha1"}
}

func fwrPeerCert(p fwrPeer) *cert.CachedCertificate {
	inv := map[string]struct{}{}
	for _, g := range p.Groups {
		inv[g] = struct{}{}
	}
	return &cert.CachedCertificate{
		Certificate:    &dummyCert{name: p.Name, networks: p.Networks, unsafeNetworks: p.Unsafe, groups: p.Groups, issuer: p.Issuer},
		InvertedGroups: inv,
	}
}

// fwrHost builds the HostInfo the way the handshake code does (handshake_manager.go: vpnAddrs =
// every certified address in order, then buildNetworks with the node's overlay network table).
func fwrHost(n fwrNode, p fwrPeer) *HostInfo {
	tbl := new(bart.Lite)
	for _, nw := range n.Networks {
		tbl.Insert(nw)
	}
	cc := fwrPeerCert(p)
	h := &HostInfo{ConnectionState: &ConnectionState{peerCert: cc}}
	for _, nw := range p.Networks {
		h.vpnAddrs = append(h.vpnAddrs, nw.Addr())
	}
	h.buildNetworks(tbl, cc.Certificate)
	return h
}

func fwrPool(cas fwrCAs) *cert.CAPool {
	cp := cert.NewCAPool()
	for sha, name := range cas {
		cp.CAs[sha] = &cert.CachedCertificate{Certificate: &dummyCert{name: name, isCa: true}}
	}
	return cp
}

func fwrNewFirewall(n fwrNode, tcp, udp, def time.Duration, rules []fwrRule) (*Firewall, error) {
	fw := NewFirewall(fwrLogger, tcp, udp, def, fwrNodeCert(n))
	fw.defaultLocalCIDRAny = n.DefaultLocalAny
	for _, r := range rules {
		if err := fw.AddRule(r.Incoming, r.Proto, r.Start, r.End, r.Groups, r.Host, r.CIDR, r.LocalCIDR, r.CAName, r.CASha); err != nil {
			return nil, fmt.Errorf("AddRule(%v): %w", r, err)
		}
	}
	return fw, nil
}

func fwrFreshConntrack(fw *Firewall) {
	fw.Conntrack = &FirewallConntrack{
		Conns:      make(map[firewall.Packet]*conn),
		TimerWheel: NewTimerWheel[firewall.Packet](time.Second, time.Hour),
	}
}

// ---- universes --------------------------------------------------------------------------------

func fwrPfx(s string) netip.Prefix { return netip.MustParsePrefix(s) }

var (
	// overlay families: index 0..2 can be the node's, 3..4 never are
	fwrFamilies = []string{"10.0.0.%d/24", "fd00::%x/64", "10.1.0.%d/16", "10.9.0.%d/24", "fd77::%x/64"}
	fwrNodeUnsafe = []string{"192.168.0.0/24", "172.16.0.0/12", "fd99::/48"}
	fwrPeerUnsafe = []string{"192.168.7.0/24", "172.20.0.0/16", "fd55::/48", "10.9.0.0/24", "192.168.0.0/25"}
	fwrGroups     = []string{"g1", "g2", "g3"}
	fwrPeerNames  = []string{"h1", "h2", "h3", "any"}
	fwrIssuers    = []string{"sha1", "sha2", "sha3", ""}
	fwrTrusted    = fwrCAs{"sha1": "ca-one", "sha2": "ca-two"}

	fwrRuleHosts  = []string{"any", "h1", "h2"}
	fwrRuleCIDRs  = []string{"any", "0.0.0.0/0", "::/0", "10.0.0.0/24", "10.0.0.2/32", "10.0.0.0/30", "10.0.0.3/24",
		"192.168.7.0/24", "192.168.7.128/25", "fd00::/64", "fd00::2/128", "fd55::/48", "10.9.0.0/16", "10.1.0.0/16", "172.20.1.0/24"}
	fwrRuleLocals = []string{"any", "0.0.0.0/0", "::/0", "10.0.0.1/32", "10.0.0.0/24", "192.168.0.0/24", "192.168.0.0/25",
		"172.16.0.0/12", "172.16.5.0/24", "fd00::1/128", "fd99::/48", "10.1.0.0/16", "10.0.0.1/8"}
	fwrRuleCANames = []string{"ca-one", "ca-two", "sha1", "ca-three"}
	fwrRuleCAShas  = []string{"sha1", "sha2", "sha3", "ca-one"}
	fwrPorts       = []uint16{0, 1, 2, 79, 80, 81, 443, 444, 1000, 65534, 65535}
	fwrProtos      = []uint8{firewall.ProtoTCP, firewall.ProtoUDP, firewall.ProtoICMP, firewall.ProtoICMPv6, 47}
)

func fwrGenNode(rt *rapid.T) fwrNode {
	var n fwrNode
	pick := rapid.IntRange(1, 7).Draw(rt, "nodeFamilies") // bit mask over families 0..2
	for i := 0; i < 3; i++ {
		if pick&(1<<i) != 0 {
			n.Networks = append(n.Networks, fwrPfx(fmt.Sprintf(fwrFamilies[i], 1)))
		}
	}
	um := rapid.SampledFrom([]int{0, 0, 1, 2, 4, 3, 5, 7}).Draw(rt, "nodeUnsafe")
	for i := 0; i < 3; i++ {
		if um&(1<<i) != 0 {
			n.Unsafe = append(n.Unsafe, fwrPfx(fwrNodeUnsafe[i]))
		}
	}
	n.DefaultLocalAny = rapid.IntRange(0, 3).Draw(rt, "defaultLocalAny") == 0
	return n
}

// fwrGenPeer draws a peer. slot (0..2) keeps the certified addresses of different peers apart.
// needValid forces at least one address inside one of the node's networks.
func fwrGenPeer(rt *rapid.T, n fwrNode, slot int, needValid bool) fwrPeer {
	var p fwrPeer
	p.Name = rapid.SampledFrom(fwrPeerNames).Draw(rt, "peerName")
	gm := rapid.IntRange(0, 7).Draw(rt, "peerGroups")
	for i, g := range fwrGroups {
		if gm&(1<<i) != 0 {
			p.Groups = append(p.Groups, g)
		}
	}
	p.Issuer = rapid.SampledFrom(fwrIssuers).Draw(rt, "peerIssuer")
	host := 2 + 10*slot
	used := map[int]bool{}
	add := func(fam int) {
		if used[fam] {
			return
		}
		used[fam] = true
		p.Networks = append(p.Networks, fwrPfx(fmt.Sprintf(fwrFamilies[fam], host)))
	}
	if needValid {
		// a family the node has
		var mine []int
		for i := 0; i < 3; i++ {
			for _, nw := range n.Networks {
				if nw.Masked().Contains(fwrPfx(fmt.Sprintf(fwrFamilies[i], host)).Addr()) {
					mine = append(mine, i)
					break
				}
			}
		}
		add(rapid.SampledFrom(mine).Draw(rt, "peerInsideFamily"))
	}
	extra := rapid.SampledFrom([]int{0, 0, 1, 1, 2}).Draw(rt, "peerExtraNets")
	if !needValid && extra == 0 {
		extra = 1
	}
	for i := 0; i < extra; i++ {
		add(rapid.IntRange(0, len(fwrFamilies)-1).Draw(rt, "peerFamily"))
	}
	// the order of the certified addresses is generated too (vpnAddrs[0] matters in the code)
	if len(p.Networks) > 1 && rapid.Bool().Draw(rt, "peerNetsReversed") {
		for i, j := 0, len(p.Networks)-1; i < j; i, j = i+1, j-1 {
			p.Networks[i], p.Networks[j] = p.Networks[j], p.Networks[i]
		}
	}
	um := rapid.SampledFrom([]int{0, 0, 0, 1, 2, 4, 8, 16, 3, 9, 5}).Draw(rt, "peerUnsafe")
	for i := range fwrPeerUnsafe {
		if um&(1<<i) != 0 {
			p.Unsafe = append(p.Unsafe, fwrPfx(fwrPeerUnsafe[i]))
		}
	}
	return p
}

func fwrGenRule(rt *rapid.T, incoming bool) fwrRule {
	r := fwrRule{Incoming: incoming}
	r.Proto = rapid.SampledFrom([]uint8{firewall.ProtoAny, firewall.ProtoAny, firewall.ProtoTCP, firewall.ProtoUDP, firewall.ProtoICMP, firewall.ProtoICMPv6}).Draw(rt, "rProto")
	switch rapid.IntRange(0, 9).Draw(rt, "rPortKind") {
	case 0, 1:
		r.Start, r.End = 0, 0
	case 2:
		r.Start, r.End = -1, -1
	case 3:
		// "0-x" in the config means any; through AddRule the range includes slot 0 (any)
		r.Start, r.End = 0, int32(rapid.SampledFrom(fwrPorts[1:7]).Draw(rt, "rPortEnd"))
	case 4, 5, 6:
		p := int32(rapid.SampledFrom(fwrPorts[1:]).Draw(rt, "rPort"))
		r.Start, r.End = p, p
	default:
		a := int32(rapid.SampledFrom(fwrPorts[1:]).Draw(rt, "rPortA"))
		b := int32(rapid.SampledFrom(fwrPorts[1:]).Draw(rt, "rPortB"))
		if a > b {
			a, b = b, a
		}
		if b-a > 1200 { // keep the real table small: AddRule materialises every port of a range
			a = b - int32(rapid.IntRange(0, 1200).Draw(rt, "rPortWidth"))
		}
		r.Start, r.End = a, b
	}
	switch rapid.IntRange(0, 7).Draw(rt, "rGroupsKind") {
	case 0, 1, 2, 6, 7:
	case 3:
		r.Groups = []string{rapid.SampledFrom(fwrGroups).Draw(rt, "rGroup")}
	case 4:
		r.Groups = rapid.SliceOfN(rapid.SampledFrom(fwrGroups), 2, 3).Draw(rt, "rGroups")
	case 5:
		r.Groups = rapid.SliceOfN(rapid.SampledFrom([]string{"g1", "g2", "any", "g4"}), 1, 3).Draw(rt, "rGroupsAny")
	}
	r.Host = fwrMaybe(rt, "rHost", fwrRuleHosts, 3)
	r.CIDR = fwrMaybe(rt, "rCIDR", fwrRuleCIDRs, 3)
	r.LocalCIDR = fwrMaybe(rt, "rLocal", fwrRuleLocals, 3)
	r.CAName = fwrMaybe(rt, "rCAName", fwrRuleCANames, 5)
	r.CASha = fwrMaybe(rt, "rCASha", fwrRuleCAShas, 5)
	return r
}

// fwrGenRuleSet draws n rules; about a third of them are variants of an earlier rule with one or
// two fields redrawn, so that rules land in the same proto/port/CA bucket of the real table and
// differ only in a selector or in local_cidr. otherDirOneIn: one rule in that many is for the
// opposite direction (0 = never).
func fwrGenRuleSet(rt *rapid.T, n int, incoming bool, otherDirOneIn int) []fwrRule {
	rules := make([]fwrRule, 0, n)
	for i := 0; i < n; i++ {
		dir := incoming
		if otherDirOneIn > 0 && rapid.IntRange(0, otherDirOneIn-1).Draw(rt, "otherDir") == 0 {
			dir = !incoming
		}
		if i > 0 && rapid.IntRange(0, 2).Draw(rt, "variant") == 0 {
			r := rules[rapid.IntRange(0, i-1).Draw(rt, "variantOf")]
			r.Groups = append([]string{}, r.Groups...)
			f := fwrGenRule(rt, dir)
			for k := rapid.IntRange(1, 2).Draw(rt, "variantFields"); k > 0; k-- {
				switch rapid.IntRange(0, 12).Draw(rt, "variantField") {
				case 10, 11, 12:
					// same bucket, the other kind of CA selector (ca_name next to ca_sha and vice versa),
					// and usually a different peer selector, so that one CA rule fails on another clause
					// while the other one decides
					if rapid.Bool().Draw(rt, "vCAKind") {
						r.CAName, r.CASha = rapid.SampledFrom(fwrRuleCANames).Draw(rt, "vCAName"), ""
					} else {
						r.CAName, r.CASha = "", rapid.SampledFrom(fwrRuleCAShas).Draw(rt, "vCASha")
					}
					if rapid.Bool().Draw(rt, "vCAGroups") {
						r.Groups = f.Groups
						r.Host = f.Host
					}
				case 7, 8, 9:
					// nested remote prefixes with different local_cidr in one bucket
					r.CIDR = rapid.SampledFrom(fwrRuleCIDRs[1:]).Draw(rt, "vCIDR2")
					r.LocalCIDR = rapid.SampledFrom(fwrRuleLocals).Draw(rt, "vLocal2")
					if r.Host == "any" {
						r.Host = ""
					}
				case 0:
					r.CIDR = rapid.SampledFrom(fwrRuleCIDRs).Draw(rt, "vCIDR")
				case 1:
					r.LocalCIDR = rapid.SampledFrom(fwrRuleLocals).Draw(rt, "vLocal")
				case 2:
					r.Groups = f.Groups
				case 3:
					r.Host = f.Host
				case 4:
					r.Start, r.End = f.Start, f.End
				case 5:
					r.CAName, r.CASha = f.CAName, f.CASha
				case 6:
					r.Proto = f.Proto
				}
			}
			rules = append(rules, r)
			continue
		}
		rules = append(rules, fwrGenRule(rt, dir))
	}
	return rules
}

// fwrMaybe returns "" (selector not given) except in one of `one` draws, where it samples the list.
func fwrMaybe(rt *rapid.T, label string, from []string, one int) string {
	if rapid.IntRange(0, one-1).Draw(rt, label+"Given") != 0 {
		return ""
	}
	return rapid.SampledFrom(from).Draw(rt, label)
}

func fwrAddrIn(p netip.Prefix, k int) netip.Addr {
	a := p.Masked().Addr()
	b := a.AsSlice()
	b[len(b)-1] += byte(k)
	r, _ := netip.AddrFromSlice(b)
	return r
}

// addresses a packet from/to this peer may legitimately carry (C17 precondition satisfied)
func fwrValidRemotes(n fwrNode, p fwrPeer) []netip.Addr {
	var out []netip.Addr
	for _, pn := range p.Networks {
		if fwrRemoteAuthentic(n, fwrPeer{Networks: []netip.Prefix{pn}}, pn.Addr()) {
			out = append(out, pn.Addr())
		}
	}
	for _, u := range p.Unsafe {
		for _, k := range []int{1, 3, 130, 200} {
			a := fwrAddrIn(u, k)
			if !u.Masked().Contains(a) {
				continue
			}
			// an address the peer is also certified for outside our networks is typed "peer
			// address" by the code and refused; it is left to C17 (implication only)
			clash := false
			for _, pn := range p.Networks {
				if pn.Addr() == a {
					clash = true
				}
			}
			if !clash {
				out = append(out, a)
			}
		}
	}
	return out
}

func fwrValidLocals(n fwrNode) []netip.Addr {
	var out []netip.Addr
	for _, nw := range n.Networks {
		out = append(out, nw.Addr())
	}
	for _, u := range n.Unsafe {
		for _, k := range []int{5, 100, 129, 250} {
			if a := fwrAddrIn(u, k); u.Masked().Contains(a) {
				out = append(out, a)
			}
		}
	}
	return out
}

func fwrSameFamily(as []netip.Addr, like netip.Addr) []netip.Addr {
	var out []netip.Addr
	for _, a := range as {
		if a.Is4() == like.Is4() {
			out = append(out, a)
		}
	}
	return out
}

// fwrGenPacket draws a packet whose addresses satisfy the address precondition.
func fwrGenPacket(rt *rapid.T, n fwrNode, p fwrPeer) firewall.Packet {
	remotes := fwrValidRemotes(n, p)
	remote := rapid.SampledFrom(remotes).Draw(rt, "remote")
	locals := fwrValidLocals(n)
	if same := fwrSameFamily(locals, remote); len(same) > 0 {
		locals = same
	}
	return firewall.Packet{
		RemoteAddr: remote,
		LocalAddr:  rapid.SampledFrom(locals).Draw(rt, "local"),
		LocalPort:  rapid.SampledFrom(fwrPorts).Draw(rt, "lport"),
		RemotePort: rapid.SampledFrom(fwrPorts).Draw(rt, "rport"),
		Protocol:   rapid.SampledFrom(fwrProtos).Draw(rt, "proto"),
		Fragment:   rapid.IntRange(0, 5).Draw(rt, "frag") == 0,
	}
}

// fwrLessSpecificDecides: the packet is allowed, and only through rules whose remote cidr is less
// specific than the cidr of another same-direction rule that also contains the remote address
// but does not match (the class that breaks a longest-prefix-only lookup).
func fwrLessSpecificDecides(rules []fwrRule, n fwrNode, peer fwrPeer, cas fwrCAs, p firewall.Packet, incoming bool) bool {
	best := -1
	for _, r := range rules {
		if r.Incoming != incoming || r.CIDR == "" || r.CIDR == "any" || !fwrPrefixContains(r.CIDR, p.RemoteAddr) {
			continue
		}
		if fwrEvalRule(r, n, peer, cas, p, incoming).all() {
			continue
		}
		if b := netip.MustParsePrefix(r.CIDR).Bits(); b > best {
			best = b
		}
	}
	if best < 0 {
		return false
	}
	any := false
	for _, r := range rules {
		if r.Incoming != incoming || !fwrEvalRule(r, n, peer, cas, p, incoming).all() {
			continue
		}
		if r.CIDR == "" || r.CIDR == "any" || !fwrPrefixContains(r.CIDR, p.RemoteAddr) || netip.MustParsePrefix(r.CIDR).Bits() >= best {
			return false
		}
		// does it match without the cidr? then the cidr is not what decides
		q := r
		q.CIDR = ""
		if len(q.Groups) > 0 || q.Host != "" {
			if fwrEvalRule(q, n, peer, cas, p, incoming).all() {
				return false
			}
		}
		any = true
	}
	return any
}

func fwrRulesKey(rules []fwrRule) string {
	ss := make([]string, len(rules))
	for i, r := range rules {
		ss[i] = r.String()
	}
	return strings.Join(ss, ";")
}

func fwrEnvKey(n fwrNode, p fwrPeer) string {
	g := append([]string{}, p.Groups...)
	sort.Strings(g)
	return fmt.Sprintf("%v|%v|%v|%s|%v|%v|%v|%s", n.Networks, n.Unsafe, n.DefaultLocalAny, p.Name, g, p.Networks, p.Unsafe, p.Issuer)
}

func fwrNets(ss ...string) []netip.Prefix {
	out := make([]netip.Prefix, len(ss))
	for i, s := range ss {
		out[i] = netip.MustParsePrefix(s)
	}
	return out
}
