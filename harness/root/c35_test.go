package nebula

// C35 - lighthouse information is accepted only from authorized senders.
//
// A LightHouse (lighthouse or client, 0-2 configured lighthouses, static hosts, v1/v2 default
// version, punchy.respond on/off) is built from a test config inside a synctest bubble and driven
// through LightHouseHandler.HandleRequest with generated NebulaMeta messages of every type (v1 and
// v2 spellings, missing details, claimed address equal to / different from the authenticated
// sender, multi-address senders, 0-25 addresses and relays, mutated and arbitrary bytes). After
// every request the complete address cache (keys, list sharing, per-owner learned / reported /
// relay entries), the messages sent through a recording EncWriter, the handshake triggers and the
// punch schedule are compared with a reference model written from the property statement.

import (
	"go.yaml.in/yaml/v3"
	"context"
	"fmt"
	"net/netip"
	"sort"
	"strings"
	"testing"
	"testing/synctest"
	"time"

	"github.com/gaissmai/bart"
	"github.com/slackhq/nebula/cert"
	"github.com/slackhq/nebula/config"
	"github.com/slackhq/nebula/header"
	"github.com/slackhq/nebula/test"
	"pgregory.net/rapid"
	"verifkit/vk"
)

// ---- recording EncWriter -----------------------------------------------------------------------

type c35Sent struct {
	t   header.MessageType
	st  header.MessageSubType
	to  netip.Addr
	raw []byte
}

type c35Writer struct {
	sent    []c35Sent
	version cert.Version
}

func (w *c35Writer) SendVia(*HostInfo, *Relay, []byte, []byte, []byte, bool, int) {}
func (w *c35Writer) Handshake(netip.Addr)                                        {}
func (w *c35Writer) SendMessageToHostInfo(t header.MessageType, st header.MessageSubType, hi *HostInfo, p, _, _ []byte) {
	w.sent = append(w.sent, c35Sent{t, st, hi.vpnAddrs[0], append([]byte{}, p...)})
}
func (w *c35Writer) SendMessageToVpnAddr(t header.MessageType, st header.MessageSubType, a netip.Addr, p, _, _ []byte) {
	w.sent = append(w.sent, c35Sent{t, st, a, append([]byte{}, p...)})
}
func (w *c35Writer) GetHostInfo(netip.Addr) *HostInfo { return nil }
func (w *c35Writer) GetCertState() *CertState         { return &CertState{initiatingVersion: w.version} }

// ---- plain view of a message (independent of the handler's helpers) ---------------------------

type c35Msg struct {
	typ      NebulaMeta_MessageType
	oldAddr  uint32
	hasAddr  bool
	addr     netip.Addr // VpnAddr, unmapped
	v4       []netip.AddrPort
	v6       []netip.AddrPort // unmapped
	relays   []netip.Addr     // old relays then new relays
	oldRelay []uint32
	newRelay []netip.Addr
}

func c35U32Addr(x uint32) netip.Addr {
	return netip.AddrFrom4([4]byte{byte(x >> 24), byte(x >> 16), byte(x >> 8), byte(x)})
}

func c35HiLo(hi, lo uint64) netip.Addr {
	var b [16]byte
	for i := 0; i < 8; i++ {
		b[i] = byte(hi >> (56 - 8*i))
		b[8+i] = byte(lo >> (56 - 8*i))
	}
	a := netip.AddrFrom16(b)
	if a.Is4In6() {
		a = netip.AddrFrom4([4]byte{b[12], b[13], b[14], b[15]})
	}
	return a
}

// c35Decode parses wire bytes into a fresh message (protobuf decoding itself is not the subject
// of this property; decoding into a FRESH struct also exposes state leaking through the handler's
// reused message object).
func c35Decode(p []byte) (*c35Msg, bool) {
	n := &NebulaMeta{}
	if err := n.Unmarshal(p); err != nil {
		return nil, false
	}
	m := &c35Msg{typ: n.Type}
	d := n.Details
	if d == nil {
		return m, true
	}
	m.oldAddr = d.OldVpnAddr
	if d.VpnAddr != nil {
		m.hasAddr = true
		m.addr = c35HiLo(d.VpnAddr.Hi, d.VpnAddr.Lo)
	}
	for _, a := range d.V4AddrPorts {
		m.v4 = append(m.v4, netip.AddrPortFrom(c35U32Addr(a.Addr), uint16(a.Port)))
	}
	for _, a := range d.V6AddrPorts {
		m.v6 = append(m.v6, netip.AddrPortFrom(c35HiLo(a.Hi, a.Lo), uint16(a.Port)))
	}
	for _, r := range d.OldRelayVpnAddrs {
		m.relays = append(m.relays, c35U32Addr(r))
		m.oldRelay = append(m.oldRelay, r)
	}
	for _, r := range d.RelayVpnAddrs {
		if r != nil {
			m.relays = append(m.relays, c35HiLo(r.Hi, r.Lo))
			m.newRelay = append(m.newRelay, c35HiLo(r.Hi, r.Lo))
		}
	}
	return m, true
}

// claimed returns the overlay address the message is about and the protocol version it uses.
func (m *c35Msg) claimed() (netip.Addr, int, bool) {
	if m.oldAddr != 0 {
		return c35U32Addr(m.oldAddr), 1, true
	}
	if m.hasAddr {
		return m.addr, 2, true
	}
	return netip.Addr{}, 2, false
}

func (m *c35Msg) String() string {
	return fmt.Sprintf("{%v old=%v new=%v(%v) v4=%v v6=%v relays=%v}", m.typ, c35U32Addr(m.oldAddr), m.addr, m.hasAddr, m.v4, m.v6, m.relays)
}

// ---- reference model -----------------------------------------------------------------------------

type c35Own struct {
	l4, l6     *netip.AddrPort
	rep4, rep6 []netip.AddrPort
	hasRelay   bool
	relays     []netip.Addr
}

type c35List struct {
	vpnAddrs []netip.Addr
	owners   map[netip.Addr]*c35Own
}

func (l *c35List) own(o netip.Addr) *c35Own {
	x := l.owners[o]
	if x == nil {
		x = &c35Own{}
		l.owners[o] = x
	}
	return x
}

type c35Punch struct {
	target netip.AddrPort
	vpn    netip.Addr
}

type c35Model struct {
	amLH        bool
	lighthouses []netip.Addr
	version     int
	respond     bool
	nets        []netip.Prefix // own overlay networks: addresses inside them are never recorded
	addrMap     map[netip.Addr]*c35List
}

func c35Has(s []netip.Addr, a netip.Addr) bool {
	for _, x := range s {
		if x == a {
			return true
		}
	}
	return false
}

func (m *c35Model) fromLighthouse(from []netip.Addr) bool {
	for _, a := range from {
		if c35Has(m.lighthouses, a) {
			return true
		}
	}
	return false
}

// getList: one list per peer, reachable under each of its overlay addresses.
func (m *c35Model) getList(addrs []netip.Addr) *c35List {
	for i, a := range addrs {
		if l := m.addrMap[a]; l != nil {
			if i != 0 {
				m.addrMap[addrs[0]] = l
			}
			return l
		}
	}
	l := &c35List{vpnAddrs: append([]netip.Addr{}, addrs...), owners: map[netip.Addr]*c35Own{}}
	for _, a := range addrs {
		m.addrMap[a] = l
	}
	return l
}

func c35Cap(a []netip.AddrPort) []netip.AddrPort {
	if len(a) > 10 {
		a = a[:10]
	}
	return append([]netip.AddrPort{}, a...)
}

func (m *c35Model) store(l *c35List, owner netip.Addr, msg *c35Msg) {
	o := l.own(owner)
	// mangled messages can carry addresses inside the own overlay networks; those are dropped
	// (after the cap of ten), see C36
	keep := func(in []netip.AddrPort) []netip.AddrPort {
		out := []netip.AddrPort{}
		for _, a := range in {
			inside := false
			for _, n := range m.nets {
				inside = inside || n.Contains(a.Addr())
			}
			if !inside {
				out = append(out, a)
			}
		}
		return out
	}
	o.rep4 = keep(c35Cap(msg.v4))
	o.rep6 = keep(c35Cap(msg.v6))
	r := msg.relays
	if len(r) > 10 {
		r = r[:10]
	}
	o.relays = append([]netip.Addr{}, r...)
	o.hasRelay = true
}

type c35Out struct {
	to  netip.Addr
	msg c35Msg
}

// answer builds the reply details from what is recorded for queried address q under q's own
// (primary) address as owner: only what q's authenticated tunnel reported / what was learned
// from q's own packets.
func (m *c35Model) answer(q netip.Addr, version int) (c35Msg, bool) {
	l := m.addrMap[q]
	if l == nil {
		return c35Msg{}, false
	}
	if c35Has(l.vpnAddrs, q) {
		q = l.vpnAddrs[0]
	}
	o := l.owners[q]
	if o == nil {
		return c35Msg{}, false
	}
	var out c35Msg
	if o.l4 != nil {
		out.v4 = append(out.v4, *o.l4)
	}
	out.v4 = append(out.v4, o.rep4...)
	if o.l6 != nil {
		out.v6 = append(out.v6, *o.l6)
	}
	out.v6 = append(out.v6, o.rep6...)
	for _, r := range o.relays {
		if version == 1 {
			if r.Is4() {
				out.relays = append(out.relays, r)
			}
		} else {
			out.relays = append(out.relays, r)
		}
	}
	return out, true
}

// handle is the reference reaction to one authenticated lighthouse message.
func (m *c35Model) handle(from []netip.Addr, msg *c35Msg) (out []c35Out, punches []c35Punch, triggers []netip.Addr) {
	switch msg.typ {
	case NebulaMeta_HostQuery:
		if !m.amLH {
			return // clients ignore queries
		}
		q, ver, ok := msg.claimed()
		if !ok {
			return
		}
		ans, found := m.answer(q, ver)
		if !found {
			return
		}
		ans.typ = NebulaMeta_HostQueryReply
		if ver == 1 {
			b := q.As4()
			ans.oldAddr = uint32(b[0])<<24 | uint32(b[1])<<16 | uint32(b[2])<<8 | uint32(b[3])
		} else {
			ans.hasAddr, ans.addr = true, q
		}
		out = append(out, c35Out{from[0], ans})
		// tell the queried host to punch towards the asker, with the asker's recorded addresses
		pv := m.version
		if pv == 1 && !from[0].Is4() {
			return
		}
		pn, found := m.answer(from[0], pv)
		if !found {
			return
		}
		pn.typ = NebulaMeta_HostPunchNotification
		if pv == 1 {
			b := from[0].As4()
			pn.oldAddr = uint32(b[0])<<24 | uint32(b[1])<<16 | uint32(b[2])<<8 | uint32(b[3])
		} else {
			pn.hasAddr, pn.addr = true, from[0]
		}
		out = append(out, c35Out{q, pn})

	case NebulaMeta_HostUpdateNotification:
		if !m.amLH {
			return // clients ignore host updates
		}
		claimed, ver, ok := msg.claimed()
		if ok && !c35Has(from, claimed) {
			return // an update about somebody else's address
		}
		l := m.getList(from)
		m.store(l, from[0], msg)
		ack := c35Msg{typ: NebulaMeta_HostUpdateNotificationAck}
		if ver == 1 {
			if !from[0].Is4() {
				return
			}
			b := from[0].As4()
			ack.oldAddr = uint32(b[0])<<24 | uint32(b[1])<<16 | uint32(b[2])<<8 | uint32(b[3])
		}
		out = append(out, c35Out{from[0], ack})

	case NebulaMeta_HostQueryReply:
		if !m.fromLighthouse(from) {
			return
		}
		about, _, ok := msg.claimed()
		if !ok {
			return
		}
		l := m.getList([]netip.Addr{about})
		m.store(l, from[0], msg)
		triggers = append(triggers, about)

	case NebulaMeta_HostPunchNotification:
		if !m.fromLighthouse(from) {
			return
		}
		about, _, ok := msg.claimed()
		if !ok {
			return
		}
		// the same filter as for learned addresses (C36): an underlay address inside the node's own
		// overlay networks is never punched (the fix recorded for C36 applies here)
		usable := func(a netip.AddrPort) bool {
			for _, n := range m.nets {
				if n.Contains(a.Addr()) {
					return false
				}
			}
			return true
		}
		for _, a := range msg.v4 {
			if usable(a) {
				punches = append(punches, c35Punch{a, about})
			}
		}
		for _, a := range msg.v6 {
			if usable(a) {
				punches = append(punches, c35Punch{a, about})
			}
		}
		if m.respond {
			punches = append(punches, c35Punch{netip.AddrPort{}, about})
		}
	}
	return
}

// ---- comparison helpers ----------------------------------------------------------------------------

func c35FmtAP(a []netip.AddrPort) string { return fmt.Sprint(a) }

func c35SameMsg(got *c35Msg, want *c35Msg) string {
	if got.typ != want.typ {
		return fmt.Sprintf("type %v want %v", got.typ, want.typ)
	}
	if got.oldAddr != want.oldAddr || got.hasAddr != want.hasAddr || (want.hasAddr && got.addr != want.addr) {
		return fmt.Sprintf("address fields old=%v new=%v(%v), want old=%v new=%v(%v)", c35U32Addr(got.oldAddr), got.addr, got.hasAddr, c35U32Addr(want.oldAddr), want.addr, want.hasAddr)
	}
	if c35FmtAP(got.v4) != c35FmtAP(want.v4) || c35FmtAP(got.v6) != c35FmtAP(want.v6) {
		return fmt.Sprintf("addresses v4=%v v6=%v, want v4=%v v6=%v", got.v4, got.v6, want.v4, want.v6)
	}
	if fmt.Sprint(got.relays) != fmt.Sprint(want.relays) {
		return fmt.Sprintf("relays %v want %v", got.relays, want.relays)
	}
	return ""
}

// c35CacheView renders the real address map: "key -> list#id" plus each list's CopyCache.
func c35RealView(lh *LightHouse) string {
	lh.RLock()
	defer lh.RUnlock()
	keys := make([]netip.Addr, 0, len(lh.addrMap))
	for k := range lh.addrMap {
		keys = append(keys, k)
	}
	sort.Slice(keys, func(i, j int) bool { return keys[i].Compare(keys[j]) < 0 })
	ids := map[*RemoteList]int{}
	var sb strings.Builder
	for _, k := range keys {
		rl := lh.addrMap[k]
		id, seen := ids[rl]
		if !seen {
			id = len(ids)
			ids[rl] = id
		}
		fmt.Fprintf(&sb, "%v->#%d", k, id)
		if !seen {
			cm := *rl.CopyCache()
			owners := make([]string, 0, len(cm))
			for o := range cm {
				owners = append(owners, o)
			}
			sort.Strings(owners)
			for _, o := range owners {
				c := cm[o]
				fmt.Fprintf(&sb, " [%s learned=%v reported=%v relay=%v]", o, c.Learned, c.Reported, c.Relay)
			}
		}
		sb.WriteString("\n")
	}
	return sb.String()
}

func (m *c35Model) view() string {
	keys := make([]netip.Addr, 0, len(m.addrMap))
	for k := range m.addrMap {
		keys = append(keys, k)
	}
	sort.Slice(keys, func(i, j int) bool { return keys[i].Compare(keys[j]) < 0 })
	ids := map[*c35List]int{}
	var sb strings.Builder
	for _, k := range keys {
		l := m.addrMap[k]
		id, seen := ids[l]
		if !seen {
			id = len(ids)
			ids[l] = id
		}
		fmt.Fprintf(&sb, "%v->#%d", k, id)
		if !seen {
			owners := make([]string, 0, len(l.owners))
			for o := range l.owners {
				owners = append(owners, o.String())
			}
			sort.Strings(owners)
			for _, os := range owners {
				o := l.owners[netip.MustParseAddr(os)]
				learned := []netip.AddrPort{}
				if o.l4 != nil {
					learned = append(learned, *o.l4)
				}
				if o.l6 != nil {
					learned = append(learned, *o.l6)
				}
				rep := append(append([]netip.AddrPort{}, o.rep4...), o.rep6...)
				rel := append([]netip.Addr{}, o.relays...)
				fmt.Fprintf(&sb, " [%s learned=%v reported=%v relay=%v]", os, learned, rep, rel)
			}
		}
		sb.WriteString("\n")
	}
	return sb.String()
}

// ---- generators ------------------------------------------------------------------------------------

type c35Peer struct {
	name  string
	addrs []netip.Addr
}

func c35Addrs(s ...string) []netip.Addr {
	out := make([]netip.Addr, len(s))
	for i := range s {
		out[i] = netip.MustParseAddr(s[i])
	}
	return out
}

var c35Peers = []c35Peer{
	{"p1", c35Addrs("10.128.0.2")},
	{"p2", c35Addrs("10.128.0.3", "fd00::3")},
	{"p3", c35Addrs("fd00::4")},
	{"p4", c35Addrs("10.128.0.5", "10.128.0.6")},
	{"lhA", c35Addrs("10.128.0.100")},
	{"lhB", c35Addrs("10.128.0.101", "fd00::101")},
	{"lhB-swapped", c35Addrs("fd00::101", "10.128.0.101")},
}

// overlay addresses a message may claim to be about
var c35Claims = c35Addrs("10.128.0.2", "10.128.0.3", "fd00::3", "fd00::4", "10.128.0.5", "10.128.0.6", "10.128.0.100", "10.128.0.101",
	"fd00::101", "10.128.0.1", "10.128.0.77", "fd00::77", "::", "0.0.0.1", "255.255.255.255")

// underlay addresses, all outside the node's overlay networks (filtering is C36's subject)
var c35V4 = []string{"1.2.3.4", "1.2.3.5", "8.8.4.4", "192.168.7.1", "172.16.9.9", "100.64.0.9", "203.0.113.7"}
var c35V6 = []string{"2001:db8::1", "2001:db8::2", "2001:db8:1::9", "fe80::7", "::ffff:1.2.3.4", "::ffff:192.168.7.1"}
var c35Ports = []uint16{4242, 4243, 1, 65535, 0}

func c35ProtoAddr(a netip.Addr) *Addr {
	b := a.As16()
	var hi, lo uint64
	for i := 0; i < 8; i++ {
		hi = hi<<8 | uint64(b[i])
		lo = lo<<8 | uint64(b[8+i])
	}
	return &Addr{Hi: hi, Lo: lo}
}

func c35U32(a netip.Addr) uint32 {
	b := a.As4()
	return uint32(b[0])<<24 | uint32(b[1])<<16 | uint32(b[2])<<8 | uint32(b[3])
}

type c35Req struct {
	peer    int
	raw     []byte
	desc    string
	learn   bool // not a message: the peer's tunnel came up from this underlay address
	learnAt netip.AddrPort
	// not a message: lighthouse.hosts is reloaded to this list (client nodes only)
	reloadLHs []string
	reload    bool
}

func c35GenMsgBytes(rt *rapid.T, sender c35Peer, amLH bool) ([]byte, string) {
	n := &NebulaMeta{}
	// a lighthouse mostly sees queries and updates, a client mostly replies and punch requests; every
	// type reaches every kind of node
	q, r, u, pn := NebulaMeta_HostQuery, NebulaMeta_HostQueryReply, NebulaMeta_HostUpdateNotification, NebulaMeta_HostPunchNotification
	types := []NebulaMeta_MessageType{q, r, u, pn, NebulaMeta_HostMovedNotification, NebulaMeta_HostUpdateNotificationAck, NebulaMeta_None,
		NebulaMeta_HostWhoami, NebulaMeta_PathCheck, NebulaMeta_MessageType(77)}
	if amLH {
		types = append(types, q, q, q, q, q, u, u, u, u, u, u, r, pn)
	} else {
		types = append(types, r, r, r, r, r, pn, pn, pn, pn, pn, q, u)
	}
	n.Type = rapid.SampledFrom(types).Draw(rt, "type")
	if rapid.IntRange(0, 11).Draw(rt, "noDetails") != 0 {
		d := &NebulaMetaDetails{}
		n.Details = d
		// claimed address: the sender's own, another known address, or none; v1 / v2 / both spellings
		var claim netip.Addr
		switch rapid.IntRange(0, 5).Draw(rt, "claimKind") {
		case 0, 1, 2:
			claim = rapid.SampledFrom(sender.addrs).Draw(rt, "claimOwn")
		case 3, 4:
			claim = rapid.SampledFrom(c35Claims).Draw(rt, "claimOther")
			if rapid.Bool().Draw(rt, "claimPeer") {
				claim = rapid.SampledFrom(c35Claims[:6]).Draw(rt, "claimPeerAddr")
			}
		}
		if claim.IsValid() {
			spelling := rapid.IntRange(0, 9).Draw(rt, "spelling")
			switch {
			case claim.Is4() && spelling < 4:
				d.OldVpnAddr = c35U32(claim)
			case spelling == 9 && claim.Is4():
				// both fields, disagreeing: the v1 field and some other v2 address
				d.OldVpnAddr = c35U32(claim)
				d.VpnAddr = c35ProtoAddr(rapid.SampledFrom(c35Claims).Draw(rt, "claimV2"))
			case spelling == 8 && claim.Is4():
				// v2 field carrying the IPv4-mapped form
				d.VpnAddr = c35ProtoAddr(netip.AddrFrom16(claim.As16()))
			default:
				d.VpnAddr = c35ProtoAddr(claim)
			}
		}
		max := 4
		if rapid.IntRange(0, 5).Draw(rt, "long") == 0 {
			max = 25
		}
		for i, k := 0, rapid.IntRange(0, max).Draw(rt, "n4"); i < k; i++ {
			a := netip.MustParseAddr(rapid.SampledFrom(c35V4).Draw(rt, "a4"))
			d.V4AddrPorts = append(d.V4AddrPorts, &V4AddrPort{Addr: c35U32(a), Port: uint32(rapid.SampledFrom(c35Ports).Draw(rt, "p4"))})
		}
		for i, k := 0, rapid.IntRange(0, max).Draw(rt, "n6"); i < k; i++ {
			a := netip.MustParseAddr(rapid.SampledFrom(c35V6).Draw(rt, "a6"))
			p := c35ProtoAddr(a)
			d.V6AddrPorts = append(d.V6AddrPorts, &V6AddrPort{Hi: p.Hi, Lo: p.Lo, Port: uint32(rapid.SampledFrom(c35Ports).Draw(rt, "p6"))})
		}
		for i, k := 0, rapid.IntRange(0, max/2).Draw(rt, "nRelayOld"); i < k; i++ {
			d.OldRelayVpnAddrs = append(d.OldRelayVpnAddrs, c35U32(netip.MustParseAddr(rapid.SampledFrom([]string{"10.128.0.100", "10.128.0.50", "10.128.0.51"}).Draw(rt, "relayOld"))))
		}
		for i, k := 0, rapid.IntRange(0, max/2).Draw(rt, "nRelayNew"); i < k; i++ {
			d.RelayVpnAddrs = append(d.RelayVpnAddrs, c35ProtoAddr(netip.MustParseAddr(rapid.SampledFrom([]string{"10.128.0.100", "fd00::50", "10.128.0.51", "fd00::51"}).Draw(rt, "relayNew"))))
		}
		d.Counter = uint32(rapid.IntRange(0, 3).Draw(rt, "counter"))
	}
	b, err := n.Marshal()
	if err != nil {
		rt.Fatalf("harness: marshal: %v", err)
	}
	desc := "msg"
	switch rapid.IntRange(0, 19).Draw(rt, "mangle") {
	case 0: // arbitrary bytes
		b = rapid.SliceOfN(rapid.Byte(), 0, 40).Draw(rt, "junk")
		desc = "junk"
	case 1: // truncated
		if len(b) > 0 {
			b = b[:rapid.IntRange(0, len(b)-1).Draw(rt, "cut")]
			desc = "truncated"
		}
	case 2: // one byte changed
		if len(b) > 0 {
			b = append([]byte{}, b...)
			b[rapid.IntRange(0, len(b)-1).Draw(rt, "pos")] ^= byte(rapid.IntRange(1, 255).Draw(rt, "xor"))
			desc = "flipped"
		}
	}
	return b, desc
}

type c35Cfg struct {
	amLH     bool
	lhs      []string // configured lighthouse overlay addresses
	statics  map[string][]string
	v6net    bool
	version  int
	respond  bool
	settings map[string]any
}

func c35GenCfg(rt *rapid.T) c35Cfg {
	c := c35Cfg{statics: map[string][]string{}}
	c.amLH = rapid.Bool().Draw(rt, "amLighthouse")
	c.v6net = rapid.Bool().Draw(rt, "v6net")
	c.version = rapid.SampledFrom([]int{1, 2}).Draw(rt, "initiatingVersion")
	c.respond = rapid.Bool().Draw(rt, "punchyRespond")
	if !c.amLH {
		switch rapid.IntRange(0, 5).Draw(rt, "lhSet") {
		case 0:
		case 1, 2:
			c.lhs = []string{"10.128.0.100"}
		case 3:
			c.lhs = []string{"10.128.0.100", "10.128.0.101"}
		case 4:
			c.lhs = []string{"fd00::101"} // lighthouse known under its second overlay address
		case 5:
			c.lhs = []string{"10.128.0.101", "10.128.0.100"}
		}
	}
	for _, l := range c.lhs {
		c.statics[l] = []string{"203.0.113.1:4242"}
	}
	if !c.amLH && len(c.lhs) > 0 {
		// both candidate lighthouses are static hosts, so that lighthouse.hosts can be reloaded to
		// either of them (a lighthouse needs a static_host_map entry)
		for _, l := range []string{"10.128.0.100", "10.128.0.101"} {
			if _, ok := c.statics[l]; !ok {
				c.statics[l] = []string{"203.0.113.1:4242"}
			}
		}
	}
	if rapid.IntRange(0, 2).Draw(rt, "extraStatic") == 0 {
		// a statically configured ordinary host (also possible on a lighthouse)
		c.statics["10.128.0.2"] = []string{"203.0.113.2:4242", "[2001:db8::99]:4242"}
	}
	shm := map[string]any{}
	for k, v := range c.statics {
		l := make([]any, len(v))
		for i := range v {
			l[i] = v[i]
		}
		shm[k] = l
	}
	hosts := make([]any, len(c.lhs))
	for i := range c.lhs {
		hosts[i] = c.lhs[i]
	}
	c.settings = map[string]any{
		"lighthouse":      map[string]any{"am_lighthouse": c.amLH, "hosts": hosts, "interval": 0},
		"listen":          map[string]any{"port": 4242},
		"static_host_map": shm,
		"static_map":      map[string]any{"network": "ip"},
		"punchy":          map[string]any{"punch": true, "respond": c.respond, "delay": "1s", "respond_delay": "5s"},
	}
	return c
}

// ---- the property ------------------------------------------------------------------------------------

func TestC35_Requests(t *testing.T) {
	vk.Check(t, 3000, func(rt *rapid.T) {
		cfg := c35GenCfg(rt)
		nReq := rapid.IntRange(1, 30).Draw(rt, "requests")
		// peers that talk: on a client mostly the lighthouses
		reqs := make([]c35Req, 0, nReq)
		for i := 0; i < nReq; i++ {
			pi := rapid.IntRange(0, len(c35Peers)-1).Draw(rt, "peer")
			if len(cfg.lhs) > 0 && rapid.Bool().Draw(rt, "fromConfiguredLighthouse") {
				pi = rapid.IntRange(4, len(c35Peers)-1).Draw(rt, "lhPeer")
			}
			if !cfg.amLH && len(cfg.lhs) > 0 && rapid.IntRange(0, 14).Draw(rt, "reloadOp") == 0 {
				nl := rapid.SampledFrom([][]string{{"10.128.0.100"}, {"10.128.0.101"}, {"10.128.0.100", "10.128.0.101"}, {"10.128.0.101", "10.128.0.100"}}).Draw(rt, "newLighthouses")
				reqs = append(reqs, c35Req{reload: true, reloadLHs: nl, desc: "reload lighthouse.hosts"})
				continue
			}
			if rapid.IntRange(0, 9).Draw(rt, "learnOp") == 0 {
				var ap netip.AddrPort
				if rapid.Bool().Draw(rt, "learn4") {
					ap = netip.AddrPortFrom(netip.MustParseAddr(rapid.SampledFrom(c35V4).Draw(rt, "la")), 4242)
				} else {
					ap = netip.AddrPortFrom(netip.MustParseAddr(rapid.SampledFrom(c35V6[:4]).Draw(rt, "la")), 4242)
				}
				reqs = append(reqs, c35Req{peer: pi, learn: true, learnAt: ap, desc: "tunnel-up"})
				continue
			}
			b, d := c35GenMsgBytes(rt, c35Peers[pi], cfg.amLH)
			reqs = append(reqs, c35Req{peer: pi, raw: b, desc: d})
		}

		var failure string
		var labels []string
		nontrivial := false
		var hist []string
		rapid.SyncTest(rt, func(rt *rapid.T) {
			failure, labels, nontrivial, hist = c35Run(cfg, reqs)
		})
		if failure != "" {
			rt.Fatalf("%s\nconfig: amLighthouse=%v lighthouses=%v statics=%v version=%d respond=%v\nhistory:\n%s", failure, cfg.amLH, cfg.lhs, cfg.statics, cfg.version, cfg.respond, strings.Join(hist, "\n"))
		}
		vk.Label("C35", labels...)
		vk.Case("C35", strings.Join(hist, ";")+fmt.Sprint(cfg.amLH, cfg.lhs, cfg.version, cfg.respond), nontrivial, "history")
		if nontrivial && vk.WantSample("C35") {
			h := hist
			if len(h) > 10 {
				h = append(append([]string{}, h[:10]...), fmt.Sprintf("... %d more", len(hist)-10))
			}
			vk.Sample("C35", map[string]any{"amLighthouse": cfg.amLH, "lighthouses": cfg.lhs, "history": h})
		}
	})
}

// c35Run executes one history inside the bubble; it returns a failure text instead of failing so
// that the bubble is always left cleanly.
func c35Run(cfg c35Cfg, reqs []c35Req) (failure string, labels []string, nontrivial bool, hist []string) {
	ctx, cancel := context.WithCancel(context.Background())
	defer func() {
		cancel()
		synctest.Wait()
	}()
	l := test.NewLogger()
	c := config.NewC(l)
	for k, v := range cfg.settings {
		c.Settings[k] = v
	}
	nets := []netip.Prefix{netip.MustParsePrefix("10.128.0.1/24")}
	if cfg.v6net {
		nets = append(nets, netip.MustParsePrefix("fd00::1/64"))
	}
	nt := new(bart.Lite)
	for _, n := range nets {
		nt.Insert(n)
	}
	cs := &CertState{myVpnNetworks: nets, myVpnNetworksTable: nt}
	punchy := NewPunchyFromConfig(l, c, nil)
	punchy.ctx = ctx // scheduling enabled; the worker is not started, the harness drains the queue itself
	lh, err := NewLightHouseFromConfig(ctx, l, c, cs, nil, punchy)
	if err != nil {
		return "harness: NewLightHouseFromConfig: " + err.Error(), nil, false, nil
	}
	w := &c35Writer{version: cert.Version(cfg.version)}
	lh.ifce = w
	trig := make(chan netip.Addr, 256)
	lh.handshakeTrigger = trig
	lhh := lh.NewRequestHandler()

	m := &c35Model{amLH: cfg.amLH, version: cfg.version, respond: cfg.respond, nets: nets, addrMap: map[netip.Addr]*c35List{}}
	for _, s := range cfg.lhs {
		m.lighthouses = append(m.lighthouses, netip.MustParseAddr(s))
	}
	// static hosts: recorded under the node's own address as owner, never under the host's
	self := nets[0].Addr()
	for k, v := range cfg.statics {
		li := m.getList([]netip.Addr{netip.MustParseAddr(k)})
		o := li.own(self)
		for _, s := range v {
			ap := netip.MustParseAddrPort(s)
			if ap.Addr().Is4() {
				o.rep4 = append([]netip.AddrPort{ap}, o.rep4...)
			} else {
				o.rep6 = append([]netip.AddrPort{ap}, o.rep6...)
			}
		}
	}
	if got, want := c35RealView(lh), m.view(); got != want {
		return fmt.Sprintf("initial cache differs:\n%s\nwant:\n%s", got, want), nil, false, nil
	}

	drain := func() []c35Punch {
		var out []c35Punch
		for {
			time.Sleep(10 * time.Second)
			synctest.Wait()
			n := 0
			for {
				select {
				case j := <-punchy.sched.queue:
					out = append(out, c35Punch{j.target, j.vpnAddr})
					n++
					continue
				default:
				}
				break
			}
			if n == 0 {
				return out
			}
		}
	}

	lbl := map[string]bool{}
	for i, r := range reqs {
		p := c35Peers[r.peer]
		if r.reload {
			hist = append(hist, fmt.Sprintf("%d: lighthouse.hosts reloaded to %v", i, r.reloadLHs))
			ns := map[string]any{}
			for k, v := range cfg.settings {
				ns[k] = v
			}
			lhm := map[string]any{}
			for k, v := range cfg.settings["lighthouse"].(map[string]any) {
				lhm[k] = v
			}
			hosts := make([]any, len(r.reloadLHs))
			for k := range r.reloadLHs {
				hosts[k] = r.reloadLHs[k]
			}
			lhm["hosts"] = hosts
			ns["lighthouse"] = lhm
			yb, err := yaml.Marshal(ns)
			if err != nil {
				return "harness: yaml: " + err.Error(), nil, false, hist
			}
			if err := c.ReloadConfigString(string(yb)); err != nil {
				return "harness: reload: " + err.Error(), nil, false, hist
			}
			synctest.Wait()
			m.lighthouses = m.lighthouses[:0]
			for _, s := range r.reloadLHs {
				m.lighthouses = append(m.lighthouses, netip.MustParseAddr(s))
			}
			labels = append(labels, "lighthouse-hosts-reloaded")
			if got, want := c35RealView(lh), m.view(); got != want {
				return fmt.Sprintf("cache differs after reloading lighthouse.hosts:\n%s\nwant:\n%s", got, want), labels, nontrivial, hist
			}
			continue
		}
		if r.learn {
			hist = append(hist, fmt.Sprintf("%d: tunnel of %s %v came up from %v", i, p.name, p.addrs, r.learnAt))
			lh.QueryCache(p.addrs).LearnRemote(p.addrs[0], r.learnAt)
			var li *c35List
			if x := m.addrMap[p.addrs[0]]; x != nil {
				li = x
			} else {
				li = m.getList(p.addrs)
			}
			ap := r.learnAt
			if ap.Addr().Is4() {
				li.own(p.addrs[0]).l4 = &ap
			} else {
				li.own(p.addrs[0]).l6 = &ap
			}
		} else {
			msg, ok := c35Decode(r.raw)
			if ok {
				hist = append(hist, fmt.Sprintf("%d: from %s %v (%s): %v", i, p.name, p.addrs, r.desc, msg))
			} else {
				hist = append(hist, fmt.Sprintf("%d: from %s %v (%s): undecodable %x", i, p.name, p.addrs, r.desc, r.raw))
			}
			w.sent = nil
			lhh.HandleRequest(netip.MustParseAddrPort("198.51.100.1:4242"), p.addrs, r.raw, w)
			gotPunch := drain()
			var gotTrig []netip.Addr
			for {
				select {
				case a := <-trig:
					gotTrig = append(gotTrig, a)
					continue
				default:
				}
				break
			}
			var wantOut []c35Out
			var wantPunch []c35Punch
			var wantTrig []netip.Addr
			if ok {
				wantOut, wantPunch, wantTrig = m.handle(p.addrs, msg)
				claimed, _, has := msg.claimed()
				spoof := has && !c35Has(p.addrs, claimed)
				fromLH := m.fromLighthouse(p.addrs)
				switch msg.typ {
				case NebulaMeta_HostUpdateNotification:
					if spoof {
						nontrivial = true
						lbl["update:claims-other-address"] = true
					} else if cfg.amLH {
						lbl["update:accepted"] = true
					}
					if !cfg.amLH {
						lbl["update:to-client"] = true
					}
				case NebulaMeta_HostQuery:
					if cfg.amLH {
						if len(wantOut) > 0 {
							lbl["query:answered"] = true
						}
						if len(wantOut) > 1 {
							lbl["query:punch-notification"] = true
						}
					} else {
						lbl["query:to-client"] = true
					}
				case NebulaMeta_HostQueryReply:
					if !fromLH {
						nontrivial = nontrivial || !cfg.amLH
						lbl["reply:not-from-lighthouse"] = true
					} else if has {
						lbl["reply:accepted"] = true
					}
				case NebulaMeta_HostPunchNotification:
					if !fromLH {
						nontrivial = nontrivial || !cfg.amLH
						lbl["punch:not-from-lighthouse"] = true
					} else if len(wantPunch) > 0 {
						lbl["punch:accepted"] = true
					}
				default:
					lbl["other-type"] = true
				}
				if len(p.addrs) > 1 {
					lbl["multi-address-sender"] = true
				}
			} else {
				lbl["undecodable"] = true
			}
			// messages sent
			if len(w.sent) != len(wantOut) {
				return fmt.Sprintf("request %d: %d messages sent, reference expects %d (%v)", i, len(w.sent), len(wantOut), wantOut), nil, false, hist
			}
			for k, s := range w.sent {
				gm, dok := c35Decode(s.raw)
				if !dok || s.t != header.LightHouse || s.st != 0 {
					return fmt.Sprintf("request %d: sent message %d is not a lighthouse message: %+v", i, k, s), nil, false, hist
				}
				if s.to != wantOut[k].to {
					return fmt.Sprintf("request %d: message %d sent to %v, reference says %v", i, k, s.to, wantOut[k].to), nil, false, hist
				}
				if d := c35SameMsg(gm, &wantOut[k].msg); d != "" {
					return fmt.Sprintf("request %d: message %d to %v: %s", i, k, s.to, d), nil, false, hist
				}
			}
			// punches (order of equal-deadline timers is not specified: compare as multisets)
			gs, ws := c35PunchKey(gotPunch), c35PunchKey(wantPunch)
			if gs != ws {
				return fmt.Sprintf("request %d: punch schedule %s, reference says %s", i, gs, ws), nil, false, hist
			}
			if fmt.Sprint(gotTrig) != fmt.Sprint(wantTrig) {
				return fmt.Sprintf("request %d: handshake triggers %v, reference says %v", i, gotTrig, wantTrig), nil, false, hist
			}
		}
		if got, want := c35RealView(lh), m.view(); got != want {
			return fmt.Sprintf("request %d: address cache differs:\n%s\nreference:\n%s", i, got, want), nil, false, hist
		}
	}
	for k := range lbl {
		labels = append(labels, k)
	}
	sort.Strings(labels)
	if cfg.amLH {
		labels = append(labels, "node:lighthouse")
	} else {
		labels = append(labels, fmt.Sprintf("node:client/%d-lighthouses", len(cfg.lhs)))
	}
	return "", labels, nontrivial, hist
}

func c35PunchKey(p []c35Punch) string {
	s := make([]string, len(p))
	for i := range p {
		s[i] = fmt.Sprintf("%v>%v", p[i].target, p[i].vpn)
	}
	sort.Strings(s)
	return "[" + strings.Join(s, " ") + "]"
}
