package nebula

// C11 - the replay window accepts each counter exactly once when in range.
//
// Oracle: a reference model that is just the SET of accepted counters plus the highest accepted
// counter (no bitmap, no circular positions):
//
//	accept(i)  <=>  i not accepted before  and  i != 0  and  (i > max  or  max-i < L)
//
// "max-i < L" is the window of the L counters ending at max (max itself included, which is
// always already seen); during warm-up (max < L) that naturally covers counters 1..max, which is
// the statement's "initial window covering the first counters". Counter 0 does not exist on the
// wire (NewBits pre-marks it; message counters are 1-based, see NextMessageCounter).

import (
	"fmt"
	"io"
	"log/slog"
	"math"
	"slices"
	"strings"
	"sync"
	"testing"

	"github.com/flynn/noise"
	"github.com/slackhq/nebula/handshake"
	"pgregory.net/rapid"
	"verifkit/vk"
)

const c11PID = "C11"
const c11KeyWrap = "window-top-wraps-2^64"

type c11Model struct {
	l    uint64
	max  uint64
	seen map[uint64]bool
}

func c11NewModel(l uint64) *c11Model {
	return &c11Model{l: l, seen: map[uint64]bool{0: true}}
}

func (m *c11Model) acceptable(i uint64) bool {
	if m.seen[i] {
		return false
	}
	if i > m.max {
		return true
	}
	return m.max-i < m.l
}

func (m *c11Model) accept(i uint64) {
	m.seen[i] = true
	if i > m.max {
		m.max = i
	}
}

// c11InWrapClass is the input class of the recorded finding: the window top max+L no longer fits
// in 64 bits and the counter is a short forward jump (2 <= i-max < L), or max == 2^64-1 and the
// counter is 0.
func c11InWrapClass(m *c11Model, i uint64) bool {
	if m.max == math.MaxUint64 && i == 0 {
		return true
	}
	if i > m.max && m.max > math.MaxUint64-m.l {
		d := i - m.max
		return d >= 2 && d < m.l
	}
	return false
}

var c11Loggers = sync.OnceValue(func() [2]*slog.Logger {
	return [2]*slog.Logger{
		slog.New(slog.DiscardHandler),
		slog.New(slog.NewTextHandler(io.Discard, &slog.HandlerOptions{Level: slog.LevelDebug})),
	}
})

// one pair of noise cipher states, only needed so that the production constructor
// newConnectionStateFromResult (which seeds the window) can be called.
var c11CipherPair = sync.OnceValue(func() [2]*noise.CipherState {
	cs := noise.NewCipherSuite(noise.DH25519, noise.CipherAESGCM, noise.HashSHA256)
	zero := strings.NewReader(strings.Repeat("\x01", 4096))
	hi, err := noise.NewHandshakeState(noise.Config{CipherSuite: cs, Pattern: noise.HandshakeNN, Initiator: true, Random: zero})
	if err != nil {
		panic(err)
	}
	hr, err := noise.NewHandshakeState(noise.Config{CipherSuite: cs, Pattern: noise.HandshakeNN, Initiator: false, Random: zero})
	if err != nil {
		panic(err)
	}
	m1, _, _, err := hi.WriteMessage(nil, nil)
	if err != nil {
		panic(err)
	}
	if _, _, _, err = hr.ReadMessage(nil, m1); err != nil {
		panic(err)
	}
	m2, _, _, err := hr.WriteMessage(nil, nil)
	if err != nil {
		panic(err)
	}
	_, c1, c2, err := hi.ReadMessage(nil, m2)
	if err != nil || c1 == nil || c2 == nil {
		panic(fmt.Sprintf("noise NN: %v", err))
	}
	return [2]*noise.CipherState{c1, c2}
})

func c11Snapshot(b *Bits) (uint64, []uint64) {
	return b.current, slices.Clone(b.bits)
}

// c11Step performs one operation against implementation and model and returns the label of the
// class it fell in. update=false is a Check-only probe.
func c11Step(fail func(string, ...any), lg *slog.Logger, b *Bits, m *c11Model, i uint64, update bool, hist func() string) string {
	want := m.acceptable(i)
	cur, bits := c11Snapshot(b)
	got := b.Check(lg, i)
	if b.current != cur || !slices.Equal(b.bits, bits) {
		fail("Check(%d) changed state (L=%d) after %s", i, m.l, hist())
	}
	wrap := c11InWrapClass(m, i)
	// Check is always compared: in the recorded class only Update misbehaves.
	if got != want {
		fail("Check(%d)=%v, model says %v (L=%d max=%d) after %s", i, got, want, m.l, m.max, hist())
	}
	cls := ""
	switch {
	case i == 0:
		cls = "zero"
	case i == m.max+1 && m.max != math.MaxUint64:
		cls = "next"
	case i > m.max && i-m.max < 64:
		cls = "jump<64"
	case i > m.max && i-m.max < m.l:
		cls = "jump<L"
	case i > m.max && i-m.max == m.l:
		cls = "jump=L"
	case i > m.max:
		cls = "jump>L"
	case i == m.max:
		cls = "dup-max"
	case m.max-i < m.l && m.seen[i]:
		cls = "dup-inwin"
	case m.max-i < m.l:
		cls = "backfill"
	case m.max-i == m.l:
		cls = "edge-below"
	default:
		cls = "out-of-window"
	}
	if !update {
		return "check-only/" + cls
	}
	if wrap && vk.KnownOpen(c11PID, c11KeyWrap) {
		vk.Excluded(c11PID, c11KeyWrap)
		return "excluded/" + cls
	}
	gotU := b.Update(lg, i)
	if gotU != want {
		fail("Update(%d)=%v, model says %v (Check said %v; L=%d max=%d) after %s", i, gotU, want, got, m.l, m.max, hist())
	}
	if want {
		m.accept(i)
	}
	return cls
}

var c11Lengths = []uint64{1, 2, 4, 8, 16, 64, 128, 256, 1024, 8192}

func c11CounterGen(m *c11Model, recent []uint64, high bool) *rapid.Generator[uint64] {
	l, mx := m.l, m.max
	// below the top regime the arithmetic does not wrap (a wrapped value would drag every sequence
	// to the top of the counter space); in the top regime wrapping is wanted.
	sub := func(a, d uint64) uint64 {
		if d > a && !high {
			return d % (a + 1)
		}
		return a - d
	}
	add := func(a, d uint64) uint64 {
		if a+d < a && !high {
			return a
		}
		return a + d
	}
	from := func(vs ...uint64) *rapid.Generator[uint64] { return rapid.SampledFrom(vs) }
	gens := []*rapid.Generator[uint64]{
		rapid.Just(add(mx, 1)), rapid.Just(add(mx, 1)), rapid.Just(add(mx, 1)),
		rapid.Map(rapid.Uint64Range(2, 6), func(d uint64) uint64 { return add(mx, d) }),
		rapid.Map(rapid.Uint64Range(0, 6), func(d uint64) uint64 { return sub(mx, d) }),
		rapid.Map(rapid.Uint64Range(0, l+1), func(d uint64) uint64 { return sub(mx, d) }), // anywhere in / just below the window
		rapid.Map(rapid.Uint64Range(0, l+1), func(d uint64) uint64 { return sub(mx, d) }),
		from(sub(mx, l), sub(mx, l-1), sub(mx, l+1), sub(mx, l-2)), // window edges
		from(add(mx, 63), add(mx, 64), add(mx, 65), sub(mx, 63), sub(mx, 64), sub(mx, 65), add(mx, 127), add(mx, 128), add(mx, 129)),
		from(add(mx, l-1), add(mx, l), add(mx, l+1), add(mx, 2*l), add(mx, 3*l), add(mx, l/2), add(mx, l+64)),
		from(0, 1, 2, l-1, l, l+1, 2*l),
	}
	if len(recent) > 0 {
		gens = append(gens, rapid.SampledFrom(recent), rapid.SampledFrom(recent))
	}
	if high {
		gens = append(gens,
			rapid.Map(rapid.Uint64Range(0, 2*l+2), func(k uint64) uint64 { return math.MaxUint64 - k }),
			rapid.Map(rapid.Uint64Range(0, 70), func(k uint64) uint64 { return math.MaxUint64 - k }))
	} else {
		gens = append(gens, rapid.Uint64Range(0, 4*l+200))
	}
	return rapid.OneOf(gens...)
}

func TestC11_Model(t *testing.T) {
	vk.Check(t, 60000, func(rt *rapid.T) {
		l := rapid.SampledFrom(c11Lengths).Draw(rt, "L")
		regime := rapid.SampledFrom([]string{"fresh", "fresh", "seeded", "steady", "steady", "high", "high"}).Draw(rt, "regime")
		lg := c11Loggers()[rapid.IntRange(0, 1).Draw(rt, "logger")]
		b := NewBits(l)
		m := c11NewModel(l)
		var ops []string
		hist := func() string { return "[" + strings.Join(ops, " ") + "]" }
		fail := func(f string, a ...any) { rt.Fatalf(f, a...) }
		var recent []uint64
		apply := func(i uint64, update bool) string {
			cls := c11Step(fail, lg, b, m, i, update, hist)
			if update {
				ops = append(ops, fmt.Sprintf("U%d", i))
				if m.seen[i] && len(recent) < 64 {
					recent = append(recent, i)
				}
			} else {
				ops = append(ops, fmt.Sprintf("C%d", i))
			}
			return cls
		}
		switch regime {
		case "seeded":
			// what newConnectionStateFromResult does after a handshake: counters 1..k in order
			k := rapid.Uint64Range(1, min(l, 6)).Draw(rt, "seedK")
			for i := uint64(1); i <= k; i++ {
				apply(i, true)
			}
		case "steady":
			apply(rapid.Uint64Range(l, 1<<40).Draw(rt, "base"), true)
		case "high":
			apply(math.MaxUint64-rapid.Uint64Range(0, 3*l+70).Draw(rt, "fromTop"), true)
		}
		high := regime == "high"
		n := rapid.IntRange(1, 80).Draw(rt, "nOps")
		bigJump, nontrivial := false, false
		classes := map[string]bool{}
		for k := 0; k < n; k++ {
			i := c11CounterGen(m, recent, high).Draw(rt, "ctr")
			update := rapid.IntRange(0, 7).Draw(rt, "probe") != 0
			prevMax := m.max
			cls := apply(i, update)
			classes[cls] = true
			if update && m.max > prevMax && m.max-prevMax >= 64 {
				bigJump = true
			} else if bigJump && (cls == "backfill" || cls == "dup-inwin" || cls == "dup-max") {
				nontrivial = true
			}
		}
		labels := []string{fmt.Sprintf("L=%d", l), "regime=" + regime}
		for c := range classes {
			labels = append(labels, "op:"+c)
		}
		slices.Sort(labels)
		if nontrivial {
			labels = append(labels, "nontrivial")
		}
		vk.Case(c11PID, fmt.Sprintf("%d/%s", l, hist()), nontrivial, labels...)
		if vk.WantSample(c11PID) && nontrivial {
			vk.Sample(c11PID, map[string]any{"L": l, "regime": regime, "ops": hist()})
		}
	})
}

// The production path: the window of a ConnectionState is created and seeded by
// newConnectionStateFromResult (counters 1..MessageIndex were used by the handshake), then data
// counters arrive. Window length is the production 8192.
func TestC11_ProductionSeeded(t *testing.T) {
	pair := c11CipherPair()
	vk.Check(t, 8000, func(rt *rapid.T) {
		k := rapid.OneOf(rapid.Uint64Range(0, 4), rapid.Uint64Range(0, ReplayWindow+2),
			rapid.SampledFrom([]uint64{ReplayWindow - 1, ReplayWindow, ReplayWindow + 1})).Draw(rt, "messageIndex")
		cs, err := newConnectionStateFromResult(&handshake.Result{EKey: pair[0], DKey: pair[1], Cipher: noise.CipherAESGCM, MessageIndex: k})
		if k >= ReplayWindow {
			// documented refusal; nothing about the window to check
			if err == nil {
				rt.Fatalf("MessageIndex %d >= ReplayWindow accepted", k)
			}
			vk.Case(c11PID, fmt.Sprintf("prod-refused/%d", k), false, "prod:refused")
			return
		}
		if err != nil {
			rt.Fatalf("newConnectionStateFromResult(MessageIndex=%d): %v", k, err)
		}
		b := cs.window
		if b.length != ReplayWindow {
			rt.Fatalf("production window length %d", b.length)
		}
		m := c11NewModel(ReplayWindow)
		for i := uint64(1); i <= k; i++ {
			m.accept(i)
		}
		lg := c11Loggers()[0]
		var ops []string
		hist := func() string { return fmt.Sprintf("seed 1..%d [%s]", k, strings.Join(ops, " ")) }
		fail := func(f string, a ...any) { rt.Fatalf(f, a...) }
		// every handshake counter must now be a replay, the next one fresh
		for _, i := range []uint64{0, 1, k, k + 1} {
			c11Step(fail, lg, b, m, i, false, hist)
		}
		var recent []uint64
		n := rapid.IntRange(1, 60).Draw(rt, "nOps")
		bigJump, nontrivial := false, false
		for j := 0; j < n; j++ {
			i := c11CounterGen(m, recent, false).Draw(rt, "ctr")
			prevMax := m.max
			cls := c11Step(fail, lg, b, m, i, true, hist)
			ops = append(ops, fmt.Sprintf("U%d", i))
			if m.seen[i] && len(recent) < 64 {
				recent = append(recent, i)
			}
			if m.max > prevMax && m.max-prevMax >= 64 {
				bigJump = true
			} else if bigJump && (cls == "backfill" || cls == "dup-inwin" || cls == "dup-max") {
				nontrivial = true
			}
		}
		vk.Case(c11PID, "prod/"+hist(), nontrivial, "prod:seeded", fmt.Sprintf("prod:seedK<=4=%v", k <= 4))
	})
}

// ---- exhaustive enumeration for small windows ------------------------------------------------

// c11Enumerate walks every sequence of `depth` Updates (each preceded by a Check) over alphabet
// from the given start state, by DFS with state copies. Returns the number of complete sequences.
func c11Enumerate(t *testing.T, lg *slog.Logger, l uint64, prefix []uint64, alphabet []uint64, depth int) int64 {
	b := NewBits(l)
	m := c11NewModel(l)
	var path []uint64
	hist := func() string { return fmt.Sprintf("prefix %v then %v", prefix, path) }
	fail := func(f string, a ...any) { t.Fatalf(f, a...) }
	for _, p := range prefix {
		c11Step(fail, lg, b, m, p, true, hist)
	}
	var leaves int64
	var rec func(d int)
	rec = func(d int) {
		if d == depth {
			leaves++
			return
		}
		for _, a := range alphabet {
			if c11InWrapClass(m, a) && vk.KnownOpen(c11PID, c11KeyWrap) {
				continue
			}
			// save
			cur, bits := c11Snapshot(b)
			mmax := m.max
			was := m.seen[a]
			path = append(path, a)
			c11Step(fail, lg, b, m, a, true, hist)
			rec(d + 1)
			path = path[:len(path)-1]
			// restore
			b.current = cur
			copy(b.bits, bits)
			m.max = mmax
			if !was {
				delete(m.seen, a)
			}
		}
	}
	rec(0)
	return leaves
}

func TestC11_ExhaustiveSmallWindows(t *testing.T) {
	defer vk.Flush()
	if vk.Thorough() && vk.Shard() != 0 {
		t.Skip("deterministic enumeration runs on shard 0 only")
	}
	lg := c11Loggers()[0]
	type cfg struct {
		l     uint64
		depth int
	}
	cfgs := []cfg{{1, 6}, {2, 6}, {4, 6}, {8, 5}}
	if vk.Thorough() {
		cfgs = []cfg{{1, 8}, {2, 7}, {4, 7}, {8, 6}, {16, 4}}
	}
	var total int64
	for _, c := range cfgs {
		// (a) fresh window, absolute counters 0..2L+2
		var abs []uint64
		for i := uint64(0); i < 2*c.l+3; i++ {
			abs = append(abs, i)
		}
		n := c11Enumerate(t, lg, c.l, nil, abs, c.depth)
		vk.LabelN(c11PID, fmt.Sprintf("exh:fresh/L=%d/depth=%d", c.l, c.depth), n)
		total += n
		// (b) steady state: after a first jump to base, counters base-L-1 .. base+L+1
		base := 5*c.l + 64
		var rel []uint64
		for i := base - c.l - 1; i <= base+c.l+1; i++ {
			rel = append(rel, i)
		}
		n = c11Enumerate(t, lg, c.l, []uint64{base}, rel, c.depth)
		vk.LabelN(c11PID, fmt.Sprintf("exh:steady/L=%d/depth=%d", c.l, c.depth), n)
		total += n
		// (c) top of the counter space: after a jump to 2^64-1-(L+1), counters up to 2^64-1 and 0
		top := uint64(math.MaxUint64) - (c.l + 1)
		var hi []uint64
		for i := top - c.l; i != 0; i++ { // runs through MaxUint64, stops at wrap
			hi = append(hi, i)
		}
		hi = append(hi, 0)
		dd := c.depth
		if len(hi) > len(abs) && dd > 4 {
			dd--
		}
		n = c11Enumerate(t, lg, c.l, []uint64{top}, hi, dd)
		vk.LabelN(c11PID, fmt.Sprintf("exh:top/L=%d/depth=%d", c.l, dd), n)
		total += n
	}
	vk.LabelN(c11PID, "exh:sequences", total)
	c11BulkEvaluations(total)
	vk.Note(c11PID, fmt.Sprintf("small windows enumerated exhaustively: every Check+Update sequence of the stated depth over an alphabet of 2L+3 counters (fresh, steady-state and top-of-counter-space start), %d sequences", total))
	vk.SetExhaustive(c11PID)
}

// c11BulkEvaluations counts enumerated sequences as evaluations (trivial by the C11 rule: no jump
// >= 64 is possible in them) without paying a mutex round trip per sequence.
func c11BulkEvaluations(n int64) {
	for n > 0 {
		vk.Case(c11PID, "", false)
		n -= c11EvalStride
	}
	vk.Note(c11PID, fmt.Sprintf("exhaustive sequences are counted in evaluations once per %d sequences; exact count is label exh:sequences", c11EvalStride))
}

const c11EvalStride = 1000

// ---- probe for the recorded finding ----------------------------------------------------------

func c11ReproduceWrap(l uint64) (string, bool) {
	lg := c11Loggers()[0]
	// (1) short forward jump while max+L overflows wipes the whole window: a replay is accepted
	b := NewBits(l)
	a := uint64(math.MaxUint64) - 3
	b.Update(lg, a)
	b.Update(lg, a+2)
	if l >= 4 && b.Update(lg, a) {
		return fmt.Sprintf("L=%d: Update(%d) Update(%d) Update(%d): the last one is a replay inside the window and is accepted", l, a, a+2, a), true
	}
	// (2) counter 0 right after 2^64-1 is taken for "next"
	b = NewBits(l)
	b.Update(lg, math.MaxUint64)
	if b.Update(lg, 0) {
		return fmt.Sprintf("L=%d: Update(2^64-1) then Update(0) returns true (Check(0) says false) and resets the window to counter 0", l), true
	}
	return "", false
}

func TestC11_Probe_WindowTopWraps(t *testing.T) {
	defer vk.Flush()
	for _, l := range []uint64{8, ReplayWindow} {
		what, bad := c11ReproduceWrap(l)
		if !bad {
			continue
		}
		if vk.KnownOpen(c11PID, c11KeyWrap) {
			vk.ReportKnown(c11PID, c11KeyWrap)
			return
		}
		t.Fatalf("replay window misbehaves at the top of the counter space: %s", what)
	}
}
