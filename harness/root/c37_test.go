package nebula

// C37 - remote address lists are deduplicated and deterministically ordered.
//
// A rapid state machine drives one RemoteList through generated histories (learned / reported /
// static-prepended v4 and v6 entries per owner, mapped addresses in the v6 slots, relays, hostname
// results, blocks and unblocks, owner resets) and compares CopyAddrs / ForEach / Len / relays after
// every step with an independent model: a plain set of "effective" addresses, filtered by the block
// list, sorted by an explicitly written key (not preferred, is IPv4, is private IPv4, address bytes,
// port). Nothing of remote_list.go's collect/sort/dedup code is reused by the model.

import (
	"bytes"
	"context"
	"fmt"
	"log/slog"
	"net/netip"
	"sort"
	"strings"
	"testing"
	"time"

	"pgregory.net/rapid"
	"verifkit/vk"
)

// ---- independent reference -----------------------------------------------------------------

// c37Eff is the address as the list is documented to present it: IPv4-mapped IPv6 is IPv4.
func c37Eff(ap netip.AddrPort) netip.AddrPort {
	a := ap.Addr()
	if a.Is4In6() {
		b := a.As16()
		a = netip.AddrFrom4([4]byte{b[12], b[13], b[14], b[15]})
	}
	return netip.AddrPortFrom(a, ap.Port())
}

type c37Pfx struct {
	v4   bool
	b    []byte
	bits int
}

func c37MkPfx(p netip.Prefix) c37Pfx {
	a := p.Addr()
	if a.Is4() {
		x := a.As4()
		return c37Pfx{true, x[:], p.Bits()}
	}
	x := a.As16()
	return c37Pfx{false, x[:], p.Bits()}
}

func c37AddrBytes(a netip.Addr) (bool, []byte) {
	if a.Is4() {
		x := a.As4()
		return true, x[:]
	}
	x := a.As16()
	return false, x[:]
}

func (p c37Pfx) contains(a netip.Addr) bool {
	v4, b := c37AddrBytes(a)
	if v4 != p.v4 {
		return false
	}
	for i := 0; i < p.bits; i++ {
		m := byte(0x80 >> (i % 8))
		if (b[i/8]^p.b[i/8])&m != 0 {
			return false
		}
	}
	return true
}

func c37Preferred(a netip.Addr, pref []c37Pfx) bool {
	for _, p := range pref {
		if p.contains(a) {
			return true
		}
	}
	return false
}

// RFC 1918 written out.
func c37PrivateV4(a netip.Addr) bool {
	if !a.Is4() {
		return false
	}
	b := a.As4()
	return b[0] == 10 || (b[0] == 172 && b[1] >= 16 && b[1] <= 31) || (b[0] == 192 && b[1] == 168)
}

func c37Bool(b bool) int {
	if b {
		return 1
	}
	return 0
}

// c37Less is the documented order: preferred first, then IPv6, then public IPv4, then private
// IPv4, each by address then port.
func c37Less(x, y netip.AddrPort, pref []c37Pfx) bool {
	kx := [3]int{c37Bool(!c37Preferred(x.Addr(), pref)), c37Bool(x.Addr().Is4()), c37Bool(c37PrivateV4(x.Addr()))}
	ky := [3]int{c37Bool(!c37Preferred(y.Addr(), pref)), c37Bool(y.Addr().Is4()), c37Bool(c37PrivateV4(y.Addr()))}
	for i := range kx {
		if kx[i] != ky[i] {
			return kx[i] < ky[i]
		}
	}
	_, bx := c37AddrBytes(x.Addr())
	_, by := c37AddrBytes(y.Addr())
	if c := bytes.Compare(bx, by); c != 0 {
		return c < 0
	}
	return x.Port() < y.Port()
}

type c37Owner struct {
	learned4, learned6 *netip.AddrPort // effective form
	rep4, rep6         []netip.AddrPort
	hasRelay           bool
	relays             []netip.Addr
}

type c37Model struct {
	owners   map[netip.Addr]*c37Owner
	blocked  []netip.AddrPort
	hr       []netip.AddrPort // nil = none
	hasHr    bool
	vpnAddrs []netip.Addr
	// bookkeeping used only to recognise the recorded finding class "unblock-no-rebuild"
	dirty        bool
	staleUnblock bool
}

func (m *c37Model) owner(o netip.Addr) *c37Owner {
	x := m.owners[o]
	if x == nil {
		x = &c37Owner{}
		m.owners[o] = x
	}
	return x
}

func (m *c37Model) isBlocked(a netip.AddrPort) bool {
	for _, b := range m.blocked {
		if b == a {
			return true
		}
	}
	return false
}

func (m *c37Model) want(pref []c37Pfx, shouldAdd func([]netip.Addr, netip.Addr) bool) ([]netip.AddrPort, []netip.Addr) {
	set := map[netip.AddrPort]bool{}
	rset := map[netip.Addr]bool{}
	add := func(a netip.AddrPort) {
		if !m.isBlocked(a) {
			set[a] = true
		}
	}
	for _, o := range m.owners {
		if o.learned4 != nil {
			add(*o.learned4)
		}
		if o.learned6 != nil {
			add(*o.learned6)
		}
		for _, a := range o.rep4 {
			add(a)
		}
		for _, a := range o.rep6 {
			add(a)
		}
		for _, r := range o.relays {
			rset[r] = true
		}
	}
	if m.hasHr {
		for _, a := range m.hr {
			if shouldAdd == nil || shouldAdd(m.vpnAddrs, a.Addr()) {
				add(a)
			}
		}
	}
	out := make([]netip.AddrPort, 0, len(set))
	for a := range set {
		out = append(out, a)
	}
	sort.Slice(out, func(i, j int) bool { return c37Less(out[i], out[j], pref) })
	rel := make([]netip.Addr, 0, len(rset))
	for r := range rset {
		rel = append(rel, r)
	}
	sort.Slice(rel, func(i, j int) bool {
		v4i, bi := c37AddrBytes(rel[i])
		v4j, bj := c37AddrBytes(rel[j])
		if v4i != v4j {
			return v4i // IPv4 relays sort before IPv6 relays
		}
		return bytes.Compare(bi, bj) < 0
	})
	return out, rel
}

// ---- generators ------------------------------------------------------------------------------

var c37V4Pool = []string{
	"70.199.182.92", "8.8.8.8", "1.0.0.1", "100.64.0.1", "9.255.255.255", "10.0.0.1", "10.255.255.255", "11.0.0.0",
	"172.15.255.255", "172.16.0.1", "172.31.255.255", "172.32.0.0", "192.167.255.255", "192.168.0.1", "192.168.255.255",
	"192.169.0.0", "0.0.0.0", "255.255.255.255", "127.0.0.1", "169.254.1.1",
}
var c37V6Pool = []string{
	"2001:db8::1", "2001:db8::2", "2001:db8:1::1", "fe80::1", "fc00::1", "fd00::10", "::1", "1::1", "1:100::1", "ff02::1", "::",
	// IPv4-mapped forms (travel in the v6 slots, are IPv4 once read back)
	"::ffff:10.0.0.1", "::ffff:8.8.8.8", "::ffff:70.199.182.92", "::ffff:192.168.0.1", "::ffff:172.16.0.1",
}
var c37Ports = []uint16{0, 1, 2, 4242, 4243, 65535}
var c37OwnerPool = []string{"10.128.0.1", "10.128.0.2", "fd00::1", "10.128.0.3"}
var c37RelayPool = []string{"10.128.0.9", "10.128.0.10", "10.128.0.11", "fd00::9", "fd00::a", "0.0.0.1", "255.255.255.255"}
var c37PrefPool = []string{
	"10.0.0.0/8", "172.16.0.0/12", "192.168.0.0/16", "192.168.0.0/24", "70.199.182.92/32", "0.0.0.0/0", "8.0.0.0/7",
	"2001:db8::/32", "2001:db8::1/128", "::/0", "fc00::/7", "fe80::/10", "1::/16", "::ffff:0:0/96", "128.0.0.0/1",
}

func c37GenV4(rt *rapid.T, l string) netip.AddrPort {
	a := netip.MustParseAddr(rapid.SampledFrom(c37V4Pool).Draw(rt, l))
	if rapid.IntRange(0, 9).Draw(rt, l+"rnd") == 0 {
		x := rapid.Uint32().Draw(rt, l+"raw")
		a = netip.AddrFrom4([4]byte{byte(x >> 24), byte(x >> 16), byte(x >> 8), byte(x)})
	}
	return netip.AddrPortFrom(a, rapid.SampledFrom(c37Ports).Draw(rt, l+"port"))
}

func c37GenV6(rt *rapid.T, l string) netip.AddrPort {
	a := netip.MustParseAddr(rapid.SampledFrom(c37V6Pool).Draw(rt, l))
	return netip.AddrPortFrom(a, rapid.SampledFrom(c37Ports).Draw(rt, l+"port"))
}

func c37ToV4(a netip.AddrPort) *V4AddrPort {
	b := a.Addr().As4()
	return &V4AddrPort{Addr: uint32(b[0])<<24 | uint32(b[1])<<16 | uint32(b[2])<<8 | uint32(b[3]), Port: uint32(a.Port())}
}

func c37ToV6(a netip.AddrPort) *V6AddrPort {
	b := a.Addr().As16()
	var hi, lo uint64
	for i := 0; i < 8; i++ {
		hi = hi<<8 | uint64(b[i])
		lo = lo<<8 | uint64(b[8+i])
	}
	return &V6AddrPort{Hi: hi, Lo: lo, Port: uint32(a.Port())}
}

func c37FromV4(p *V4AddrPort) netip.AddrPort {
	return netip.AddrPortFrom(netip.AddrFrom4([4]byte{byte(p.Addr >> 24), byte(p.Addr >> 16), byte(p.Addr >> 8), byte(p.Addr)}), uint16(p.Port))
}

func c37FromV6(p *V6AddrPort) netip.AddrPort {
	var b [16]byte
	for i := 0; i < 8; i++ {
		b[i] = byte(p.Hi >> (56 - 8*i))
		b[8+i] = byte(p.Lo >> (56 - 8*i))
	}
	return c37Eff(netip.AddrPortFrom(netip.AddrFrom16(b), uint16(p.Port)))
}

const c37Key = "unblock-no-rebuild"

func c37Fmt(a []netip.AddrPort) string {
	s := make([]string, len(a))
	for i := range a {
		s[i] = a[i].String()
	}
	return "[" + strings.Join(s, " ") + "]"
}

type c37Run struct {
	rl        *RemoteList
	m         *c37Model
	shouldAdd func([]netip.Addr, netip.Addr) bool
	hist      []string
	// labels / non-triviality
	overlap, blockedSeen, prefSeen, mappedSeen, hrSeen, dedupSeen bool
	seenBy                                                       map[netip.AddrPort]netip.Addr
	skipped                                                      int
}

func (c *c37Run) note(o netip.Addr, a netip.AddrPort) {
	if prev, ok := c.seenBy[a]; ok && prev != o {
		c.overlap = true
	}
	c.seenBy[a] = o
}

func (c *c37Run) logf(f string, a ...any) { c.hist = append(c.hist, fmt.Sprintf(f, a...)) }

// observe compares every read accessor with the model.
func (c *c37Run) observe(rt *rapid.T, prefs []netip.Prefix) {
	pref := make([]c37Pfx, len(prefs))
	for i, p := range prefs {
		pref[i] = c37MkPfx(p)
	}
	c.logf("observe pref=%v", prefs)
	got := c.rl.CopyAddrs(prefs)
	c.m.dirty = false
	c.rl.RLock()
	gotRel := append([]netip.Addr{}, c.rl.relays...)
	c.rl.RUnlock()
	if c.m.staleUnblock && vk.KnownOpen("C37", c37Key) {
		// recorded finding: the list is stale after an unblock until the next cache change
		vk.Excluded("C37", c37Key)
		c.skipped++
		return
	}
	want, wantRel := c.m.want(pref, c.shouldAdd)
	if len(got) != len(want) {
		rt.Fatalf("CopyAddrs = %s\nwant       %s\nhistory:\n%s", c37Fmt(got), c37Fmt(want), strings.Join(c.hist, "\n"))
	}
	for i := range got {
		if got[i] != want[i] {
			rt.Fatalf("CopyAddrs = %s\nwant       %s (differs at %d)\nhistory:\n%s", c37Fmt(got), c37Fmt(want), i, strings.Join(c.hist, "\n"))
		}
		if c37Preferred(got[i].Addr(), pref) {
			c.prefSeen = true
		}
	}
	if len(gotRel) != len(wantRel) {
		rt.Fatalf("relays = %v want %v\nhistory:\n%s", gotRel, wantRel, strings.Join(c.hist, "\n"))
	}
	for i := range gotRel {
		if gotRel[i] != wantRel[i] {
			rt.Fatalf("relays = %v want %v\nhistory:\n%s", gotRel, wantRel, strings.Join(c.hist, "\n"))
		}
	}
	// the other accessors agree with CopyAddrs and flag preferred entries correctly
	if n := c.rl.Len(prefs); n != len(want) {
		rt.Fatalf("Len = %d want %d", n, len(want))
	}
	i := 0
	c.rl.ForEach(prefs, func(a netip.AddrPort, p bool) {
		if i >= len(want) || a != want[i] || p != c37Preferred(a.Addr(), pref) {
			rt.Fatalf("ForEach item %d = %v preferred=%v, want list %s", i, a, p, c37Fmt(want))
		}
		i++
	})
	if i != len(want) {
		rt.Fatalf("ForEach visited %d of %d", i, len(want))
	}
}

func c37History(rt *rapid.T) *c37Run {
	owners := make([]netip.Addr, len(c37OwnerPool))
	for i, s := range c37OwnerPool {
		owners[i] = netip.MustParseAddr(s)
	}
	genOwner := rapid.SampledFrom(owners)

	c := &c37Run{m: &c37Model{owners: map[netip.Addr]*c37Owner{}}, seenBy: map[netip.AddrPort]netip.Addr{}}
	// shouldAdd (only consulted for hostname results): nil, or a generated deny set that may also
	// depend on the vpn addresses the list currently carries.
	denied := map[netip.Addr]bool{}
	var vpnGate netip.Addr
	switch rapid.IntRange(0, 2).Draw(rt, "shouldAddKind") {
	case 0:
	case 2:
		vpnGate = owners[1]
		fallthrough
	case 1:
		for _, a := range rapid.SliceOfN(rapid.SampledFrom(c37V4Pool[:8]), 0, 3).Draw(rt, "denied") {
			denied[netip.MustParseAddr(a)] = true
		}
		c.shouldAdd = func(vpn []netip.Addr, x netip.Addr) bool {
			if vpnGate.IsValid() && len(vpn) > 0 && vpn[0] == vpnGate {
				return false
			}
			return !denied[x]
		}
	}
	c.m.vpnAddrs = []netip.Addr{owners[0]}
	c.rl = NewRemoteList(c.m.vpnAddrs, c.shouldAdd)
	c.logf("new vpnAddrs=%v shouldAdd: denied=%v gate=%v nil=%v", c.m.vpnAddrs, denied, vpnGate, c.shouldAdd == nil)

	// per-call filter handed to the Set calls (stands in for the lighthouse's allow-list filter)
	genFilter := func(l string) (map[netip.Addr]bool, string) {
		f := map[netip.Addr]bool{}
		if rapid.IntRange(0, 2).Draw(rt, l+"has") == 0 {
			for _, a := range rapid.SliceOfN(rapid.SampledFrom(c37V4Pool[:8]), 1, 2).Draw(rt, l) {
				f[netip.MustParseAddr(a)] = true
			}
		}
		return f, fmt.Sprint(f)
	}
	genPrefs := func() []netip.Prefix {
		ps := rapid.SliceOfN(rapid.SampledFrom(c37PrefPool), 0, 3).Draw(rt, "pref")
		out := make([]netip.Prefix, len(ps))
		for i, p := range ps {
			out[i] = netip.MustParsePrefix(p)
		}
		return out
	}
	mutated := func() { c.m.dirty = true; c.m.staleUnblock = false }

	steps := rapid.IntRange(1, 24).Draw(rt, "steps")
	for s := 0; s < steps; s++ {
		switch op := rapid.IntRange(0, 15).Draw(rt, "op"); op {
		case 0, 1: // learned address
			o := genOwner.Draw(rt, "owner")
			var a netip.AddrPort
			if rapid.Bool().Draw(rt, "v4") {
				a = c37GenV4(rt, "a")
			} else {
				a = c37GenV6(rt, "a")
			}
			c.logf("LearnRemote(%v, %v)", o, a)
			c.rl.LearnRemote(o, a)
			e := c37Eff(a)
			if a.Addr().Is4() {
				c.m.owner(o).learned4 = &e
			} else {
				c.m.owner(o).learned6 = &e
				if a.Addr().Is4In6() {
					c.mappedSeen = true
				}
			}
			c.note(o, e)
			mutated()
		case 2, 3: // reported v4 list
			o := genOwner.Draw(rt, "owner")
			n := rapid.IntRange(0, 14).Draw(rt, "n")
			in := make([]*V4AddrPort, n)
			raw := make([]netip.AddrPort, n)
			for i := range in {
				raw[i] = c37GenV4(rt, "a")
				in[i] = c37ToV4(raw[i])
			}
			f, fs := genFilter("f4")
			c.logf("SetV4(%v, %s, deny=%s)", o, c37Fmt(raw), fs)
			c.rl.Lock()
			c.rl.unlockedSetV4(o, o, in, func(_ netip.Addr, p *V4AddrPort) bool { return !f[c37FromV4(p).Addr()] })
			c.rl.Unlock()
			mo := c.m.owner(o)
			mo.rep4 = nil
			for i, a := range raw {
				if i < 10 && !f[a.Addr()] {
					mo.rep4 = append(mo.rep4, a)
					c.note(o, a)
				}
			}
			mutated()
		case 4, 5: // reported v6 list (may carry mapped addresses)
			o := genOwner.Draw(rt, "owner")
			n := rapid.IntRange(0, 14).Draw(rt, "n")
			in := make([]*V6AddrPort, n)
			raw := make([]netip.AddrPort, n)
			for i := range in {
				raw[i] = c37GenV6(rt, "a")
				in[i] = c37ToV6(raw[i])
			}
			f, fs := genFilter("f6")
			c.logf("SetV6(%v, %s, deny=%s)", o, c37Fmt(raw), fs)
			c.rl.Lock()
			c.rl.unlockedSetV6(o, o, in, func(_ netip.Addr, p *V6AddrPort) bool { return !f[c37FromV6(p).Addr()] })
			c.rl.Unlock()
			mo := c.m.owner(o)
			mo.rep6 = nil
			for i, a := range raw {
				e := c37Eff(a)
				if i < 10 && !f[e.Addr()] {
					mo.rep6 = append(mo.rep6, e)
					c.note(o, e)
					if a.Addr().Is4In6() {
						c.mappedSeen = true
					}
				}
			}
			mutated()
		case 6: // static style prepend
			o := genOwner.Draw(rt, "owner")
			mo := c.m.owner(o)
			if rapid.Bool().Draw(rt, "v4") {
				a := c37GenV4(rt, "a")
				c.logf("PrependV4(%v, %v)", o, a)
				c.rl.Lock()
				c.rl.unlockedPrependV4(o, c37ToV4(a))
				c.rl.Unlock()
				mo.rep4 = append([]netip.AddrPort{a}, mo.rep4...)
				if len(mo.rep4) > 10 {
					mo.rep4 = mo.rep4[:10]
				}
				c.note(o, a)
			} else {
				a := c37GenV6(rt, "a")
				c.logf("PrependV6(%v, %v)", o, a)
				c.rl.Lock()
				c.rl.unlockedPrependV6(o, c37ToV6(a))
				c.rl.Unlock()
				mo.rep6 = append([]netip.AddrPort{c37Eff(a)}, mo.rep6...)
				if len(mo.rep6) > 10 {
					mo.rep6 = mo.rep6[:10]
				}
				c.note(o, c37Eff(a))
			}
			mutated()
		case 7: // relays
			o := genOwner.Draw(rt, "owner")
			rs := rapid.SliceOfN(rapid.SampledFrom(c37RelayPool), 0, 13).Draw(rt, "relays")
			in := make([]netip.Addr, len(rs))
			for i, r := range rs {
				in[i] = netip.MustParseAddr(r)
			}
			c.logf("SetRelay(%v, %v)", o, in)
			c.rl.Lock()
			c.rl.unlockedSetRelay(o, in)
			c.rl.Unlock()
			mo := c.m.owner(o)
			mo.relays = nil
			for i, r := range in {
				if i < 10 {
					mo.relays = append(mo.relays, r)
				}
			}
			mutated()
		case 8, 9: // block an address (mostly one that is present)
			var a netip.AddrPort
			cur, _ := c.m.want(nil, c.shouldAdd)
			if len(cur) > 0 && rapid.IntRange(0, 4).Draw(rt, "blkKnown") > 0 {
				a = rapid.SampledFrom(cur).Draw(rt, "blk")
			} else {
				a = c37GenV4(rt, "blk")
			}
			relayed := rapid.IntRange(0, 5).Draw(rt, "relayed") == 0
			c.logf("BlockRemote(%v relayed=%v)", a, relayed)
			c.rl.BlockRemote(ViaSender{UdpAddr: a, IsRelayed: relayed})
			if !relayed && !c.m.isBlocked(a) {
				c.m.blocked = append(c.m.blocked, a)
				c.blockedSeen = true
				mutated()
			}
		case 10: // unblock
			stale := !c.m.dirty && len(c.m.blocked) > 0
			if rapid.Bool().Draw(rt, "viaHandshake") {
				v := []netip.Addr{genOwner.Draw(rt, "vpn")}
				if rapid.Bool().Draw(rt, "two") {
					v = append(v, genOwner.Draw(rt, "vpn2"))
				}
				c.logf("RefreshFromHandshake(%v)", v)
				c.rl.RefreshFromHandshake(v)
				if c.m.hasHr && c.shouldAdd != nil && !c.m.dirty {
					stale = true // the vpn addresses feed shouldAdd for hostname results
				}
				c.m.vpnAddrs = v
			} else {
				c.logf("ResetBlockedRemotes()")
				c.rl.ResetBlockedRemotes()
			}
			c.m.blocked = nil
			if stale {
				c.m.staleUnblock = true
			}
		case 11: // owner reset (static map reload)
			o := genOwner.Draw(rt, "owner")
			c.logf("ResetForOwner(%v)", o)
			c.rl.ResetForOwner(o)
			if mo := c.m.owners[o]; mo != nil {
				mo.rep4, mo.rep6 = nil, nil
			}
			mutated()
		case 12: // hostname results installed / replaced
			n := rapid.IntRange(0, 6).Draw(rt, "hrN")
			var lits []string
			var as []netip.AddrPort
			for i := 0; i < n; i++ {
				var a netip.AddrPort
				if rapid.Bool().Draw(rt, "v4") {
					a = c37GenV4(rt, "hr")
				} else {
					a = c37GenV6(rt, "hr")
					// the resolver hands out unmapped addresses (remote_list.go background lookup)
					a = c37Eff(a)
				}
				as = append(as, a)
				lits = append(lits, a.String())
			}
			c.logf("SetHostnamesResults(%v)", lits)
			hr, err := NewHostnameResults(context.Background(), slog.New(slog.DiscardHandler), time.Hour, "ip", time.Second, lits, func() {})
			if err != nil {
				rt.Fatalf("NewHostnameResults(%v): %v", lits, err)
			}
			c.rl.Lock()
			c.rl.unlockedSetHostnamesResults(hr)
			c.rl.shouldRebuild = true
			c.rl.Unlock()
			c.m.hr, c.m.hasHr = as, true
			c.hrSeen = c.hrSeen || n > 0
			mutated()
		case 13: // resolver delivers a different set (what the onUpdate callback does)
			if !c.m.hasHr {
				continue
			}
			n := rapid.IntRange(0, 5).Draw(rt, "hrN")
			ips := map[netip.AddrPort]struct{}{}
			var as []netip.AddrPort
			for i := 0; i < n; i++ {
				a := c37GenV4(rt, "hr")
				ips[a] = struct{}{}
				as = append(as, a)
			}
			c.logf("hostnames resolve to %s", c37Fmt(as))
			c.rl.Lock()
			c.rl.hr.ips.Store(&ips)
			c.rl.shouldRebuild = true
			c.rl.Unlock()
			c.m.hr = as
			mutated()
		case 14:
			c.logf("ClearHostnameResults()")
			c.rl.ClearHostnameResults()
			c.m.hr, c.m.hasHr = nil, false
			mutated()
		case 15: // pure re-sort with other preferred ranges, no cache change in between
			c.observe(rt, genPrefs())
		}
		c.observe(rt, genPrefs())
	}
	// did deduplication have something to do?
	total := 0
	for _, o := range c.m.owners {
		total += len(o.rep4) + len(o.rep6)
		if o.learned4 != nil {
			total++
		}
		if o.learned6 != nil {
			total++
		}
	}
	final, _ := c.m.want(nil, c.shouldAdd)
	c.dedupSeen = total > len(final)+len(c.m.blocked)
	return c
}

func TestC37_Histories(t *testing.T) {
	vk.Check(t, 50000, func(rt *rapid.T) {
		c := c37History(rt)
		nt := c.overlap && (c.blockedSeen || c.prefSeen)
		lb := []string{"history"}
		for n, b := range map[string]bool{"overlap": c.overlap, "blocked": c.blockedSeen, "preferred": c.prefSeen, "mapped": c.mappedSeen,
			"hostnames": c.hrSeen, "dedup": c.dedupSeen, "skipped-observations": c.skipped > 0} {
			if b {
				lb = append(lb, n)
			}
		}
		vk.Case("C37", strings.Join(c.hist, ";"), nt, lb...)
		if nt && vk.WantSample("C37") {
			h := c.hist
			if len(h) > 14 {
				h = append(append([]string{}, h[:14]...), fmt.Sprintf("... %d more", len(c.hist)-14))
			}
			vk.Sample("C37", map[string]any{"history": h})
		}
	})
}

// TestC37_Probe_unblock_no_rebuild runs the minimal input of the recorded finding: an address is
// blocked, the list is read, the block list is cleared (as a completed handshake does) and the
// list is read again without any cache change in between.
func TestC37_Probe_unblock_no_rebuild(t *testing.T) {
	defer vk.Flush()
	for _, viaHandshake := range []bool{false, true} {
		o := netip.MustParseAddr("10.128.0.1")
		a := netip.MustParseAddrPort("8.8.8.8:4242")
		b := netip.MustParseAddrPort("1.0.0.1:4242")
		rl := NewRemoteList([]netip.Addr{o}, nil)
		rl.LearnRemote(o, b)
		rl.Lock()
		rl.unlockedSetV4(o, o, []*V4AddrPort{c37ToV4(a)}, func(netip.Addr, *V4AddrPort) bool { return true })
		rl.Unlock()
		rl.BlockRemote(ViaSender{UdpAddr: a})
		if got := rl.CopyAddrs(nil); len(got) != 1 || got[0] != b {
			t.Fatalf("blocked address not removed: %v", got)
		}
		if viaHandshake {
			rl.RefreshFromHandshake([]netip.Addr{o})
		} else {
			rl.ResetBlockedRemotes()
		}
		got := rl.CopyAddrs(nil)
		reproduced := len(got) != 2
		vk.Case("C37", fmt.Sprintf("probe/%v", viaHandshake), true, "probe")
		if !reproduced {
			continue
		}
		if vk.KnownOpen("C37", c37Key) {
			vk.ReportKnown("C37", c37Key)
			continue
		}
		t.Fatalf("after the block list was cleared (viaHandshake=%v) and nothing is blocked any more, CopyAddrs = %v, want [%v %v]", viaHandshake, got, b, a)
	}
}
