package nebula

// C33 - timer wheel fires each item once, on time.
//
// Reference (independent of slots/lists): an item added at time a (the wheel having been advanced
// to a) with timeout d is due at  D = a + roundUp(clamp(d), tick)  where clamp limits d to
// [tick, span]. Claims checked, and nothing more:
//   - not early: an item is never handed out by Purge while now < D;
//   - not late:  after Advance(now) followed by a full drain, every item with D + 2*tick <= now
//     has been handed out;
//   - exactly once: no item is handed out twice, none is invented, and after a final advance of
//     more than span+2 ticks and a drain every item has been handed out.
// Caller preconditions kept (firewall.go, handshake_manager.go, connection_manager.go): time never
// goes backwards, min <= max, and every Add is preceded by an Advance to the same instant.

import (
	"fmt"
	"strings"
	"testing"
	"time"

	"pgregory.net/rapid"
	"verifkit/vk"
)

const c33PID = "C33"

type c33Wheel interface {
	Add(v int, timeout time.Duration) *TimeoutItem[int]
	Purge() (int, bool)
	Advance(now time.Time)
}

type c33Item struct {
	due      int64 // D, ns offset
	added    int64
	d        int64
	returned bool
}

func c33Due(addAt, d, tick, span int64) int64 {
	if d < tick {
		d = tick
	}
	if d > span {
		d = span
	}
	n := d / tick
	if d%tick != 0 {
		n++
	}
	return addAt + n*tick
}

type c33Run struct {
	rt         *rapid.T
	w          c33Wheel
	tick, span int64
	now        int64
	base       time.Time
	items      []*c33Item
	ops        []string
}

func (r *c33Run) hist() string {
	o := r.ops
	if len(o) > 120 {
		o = append([]string{"..."}, o[len(o)-120:]...)
	}
	return fmt.Sprintf("tick=%d span=%d [%s]", r.tick, r.span, strings.Join(o, " "))
}

func (r *c33Run) advance(delta int64) {
	r.now += delta
	r.ops = append(r.ops, fmt.Sprintf("Adv+%d", delta))
	r.w.Advance(r.base.Add(time.Duration(r.now)))
}

func (r *c33Run) add(d int64) {
	id := len(r.items)
	r.items = append(r.items, &c33Item{due: c33Due(r.now, d, r.tick, r.span), added: r.now, d: d})
	r.ops = append(r.ops, fmt.Sprintf("Add(%d,%d)", id, d))
	if ti := r.w.Add(id, time.Duration(d)); ti == nil || ti.Item != id {
		r.rt.Fatalf("Add returned %+v for item %d; %s", ti, id, r.hist())
	}
}

// purge takes up to max items (max<0: until empty). Returns whether the wheel reported empty.
func (r *c33Run) purge(max int) bool {
	r.ops = append(r.ops, fmt.Sprintf("Purge(%d)", max))
	for n := 0; max < 0 || n < max; n++ {
		id, ok := r.w.Purge()
		if !ok {
			return true
		}
		if id < 0 || id >= len(r.items) {
			r.rt.Fatalf("Purge returned item %d that was never added; %s", id, r.hist())
		}
		it := r.items[id]
		if it.returned {
			r.rt.Fatalf("item %d returned twice (now=%d); %s", id, r.now, r.hist())
		}
		it.returned = true
		if r.now < it.due {
			r.rt.Fatalf("item %d (added at %d, timeout %d, due %d) returned early at now=%d; %s", id, it.added, it.d, it.due, r.now, r.hist())
		}
	}
	return false
}

func (r *c33Run) checkNotLate() {
	for id, it := range r.items {
		if !it.returned && it.due+2*r.tick <= r.now {
			r.rt.Fatalf("item %d (added at %d, timeout %d, due %d) not returned by now=%d (due+2 ticks=%d) after a full drain; %s",
				id, it.added, it.d, it.due, r.now, it.due+2*r.tick, r.hist())
		}
	}
}

func (r *c33Run) pending() int {
	n := 0
	for _, it := range r.items {
		if !it.returned {
			n++
		}
	}
	return n
}

func (r *c33Run) finish() {
	r.advance(r.span + 3*r.tick)
	r.purge(-1)
	for id, it := range r.items {
		if !it.returned {
			r.rt.Fatalf("item %d (added at %d, timeout %d) never returned, even %d ns after its due time; %s", id, it.added, it.d, r.now-it.due, r.hist())
		}
	}
	// nothing left behind
	r.advance(r.span + 3*r.tick)
	if id, ok := r.w.Purge(); ok {
		r.rt.Fatalf("Purge produced item %d after everything had been returned; %s", id, r.hist())
	}
}

// c33Config draws (tick, span) with tick <= span: ratios from 1 to a few thousand, divisible and
// non-divisible, tick from 1 ns to a minute.
func c33Config(rt *rapid.T) (tick, span int64, divisible bool) {
	tick = rapid.OneOf(
		rapid.SampledFrom([]int64{1, 2, 3, 7, 10, 1000, 999, int64(time.Millisecond), int64(time.Second), int64(time.Minute), int64(500 * time.Millisecond)}),
		rapid.Int64Range(1, 5000),
		rapid.Int64Range(1, int64(time.Minute)),
	).Draw(rt, "tick")
	ratio := rapid.OneOf(
		rapid.Int64Range(1, 4), rapid.Int64Range(1, 12), rapid.Int64Range(1, 12), rapid.Int64Range(5, 60), rapid.Int64Range(50, 3000),
	).Draw(rt, "ratio")
	rem := int64(0)
	if tick > 1 && rapid.Bool().Draw(rt, "nondivisible") {
		rem = rapid.OneOf(rapid.Int64Range(1, tick-1), rapid.SampledFrom([]int64{1, tick - 1, tick / 2})).Draw(rt, "rem")
		if rem <= 0 {
			rem = 1
		}
	}
	return tick, ratio*tick + rem, rem == 0
}

func c33Delta(rt *rapid.T, tick, span int64, wheelLen int64) (int64, string) {
	kind := rapid.SampledFrom([]string{"zero", "subtick", "subtick", "tick", "tick", "ticks", "ticks", "near-multiple", "near-multiple", "span", "revolution+", "revolutions"}).Draw(rt, "advKind")
	var d int64
	switch kind {
	case "zero":
		d = 0
	case "subtick":
		d = rapid.Int64Range(0, tick-1).Draw(rt, "d")
	case "tick":
		d = tick
	case "ticks":
		d = rapid.Int64Range(1, 6).Draw(rt, "k")*tick + rapid.Int64Range(0, tick-1).Draw(rt, "frac")
	case "near-multiple":
		d = rapid.Int64Range(1, wheelLen+1).Draw(rt, "k")*tick + rapid.SampledFrom([]int64{-1, 0, 1}).Draw(rt, "pm")
	case "span":
		d = span + rapid.SampledFrom([]int64{-tick, -1, 0, 1, tick, 2 * tick}).Draw(rt, "pm")
	case "revolution+":
		d = wheelLen*tick + rapid.Int64Range(1, 3*tick).Draw(rt, "extra")
	case "revolutions":
		d = rapid.Int64Range(2, 5).Draw(rt, "revs")*wheelLen*tick + rapid.Int64Range(0, tick).Draw(rt, "extra")
	}
	if d < 0 {
		d = 0
	}
	return d, kind
}

func c33Timeout(rt *rapid.T, tick, span int64) (int64, string) {
	kind := rapid.SampledFrom([]string{"below-tick", "tick-multiple", "tick-multiple", "multiple+-1", "multiple+-1", "any", "any", "at-span", "at-span", "above-span", "nonpositive"}).Draw(rt, "toKind")
	maxK := span / tick
	var d int64
	switch kind {
	case "below-tick":
		d = rapid.Int64Range(1, tick).Draw(rt, "d")
		if d == tick {
			d = tick - 1
		}
		if d < 1 {
			d = 1
		}
	case "tick-multiple":
		d = rapid.Int64Range(1, maxK).Draw(rt, "k") * tick
	case "multiple+-1":
		d = rapid.Int64Range(1, maxK).Draw(rt, "k")*tick + rapid.SampledFrom([]int64{-1, 1}).Draw(rt, "pm")
	case "any":
		d = rapid.Int64Range(1, span).Draw(rt, "d")
	case "at-span":
		d = span + rapid.SampledFrom([]int64{-1, 0, 0, 1}).Draw(rt, "pm")
	case "above-span":
		d = span + rapid.Int64Range(1, 4*span).Draw(rt, "over")
	case "nonpositive":
		d = -rapid.Int64Range(0, 2*tick).Draw(rt, "neg")
	}
	return d, kind
}

func c33Property(rt *rapid.T) {
	tick, span, divisible := c33Config(rt)
	locking := rapid.Bool().Draw(rt, "locking")
	var w c33Wheel
	if locking {
		w = NewLockingTimerWheel[int](time.Duration(tick), time.Duration(span))
	} else {
		w = NewTimerWheel[int](time.Duration(tick), time.Duration(span))
	}
	wheelLen := span/tick + 2
	r := &c33Run{rt: rt, w: w, tick: tick, span: span, base: time.Unix(1_700_000_000, rapid.Int64Range(0, 999_999_999).Draw(rt, "nsec"))}
	r.advance(0) // the wheel learns the time before anything is added
	labels := map[string]bool{}
	nOps := rapid.IntRange(1, 80).Draw(rt, "nOps")
	longGapWithPending := false
	for k := 0; k < nOps; k++ {
		switch rapid.SampledFrom([]string{"add", "add", "add", "advance", "advance", "advance+drain", "advance+drain", "purge-some"}).Draw(rt, "op") {
		case "add":
			// Add follows an Advance to the current time: time only moves inside advance(), so the
			// wheel has always been advanced to r.now here.
			n := rapid.IntRange(1, 4).Draw(rt, "burst")
			for j := 0; j < n; j++ {
				d, kind := c33Timeout(rt, tick, span)
				labels["to:"+kind] = true
				r.add(d)
			}
		case "advance":
			d, kind := c33Delta(rt, tick, span, wheelLen)
			labels["adv:"+kind] = true
			if d > wheelLen*tick && r.pending() > 0 {
				longGapWithPending = true
			}
			r.advance(d)
		case "advance+drain":
			d, kind := c33Delta(rt, tick, span, wheelLen)
			labels["adv:"+kind] = true
			if d > wheelLen*tick && r.pending() > 0 {
				longGapWithPending = true
			}
			r.advance(d)
			r.purge(-1)
			r.checkNotLate()
		case "purge-some":
			labels["purge-some"] = true
			if r.purge(rapid.IntRange(1, 3).Draw(rt, "n")) {
				// the wheel said it is empty: that is a full drain as well
				r.checkNotLate()
			}
		}
	}
	nItems := len(r.items)
	r.finish()
	ls := []string{fmt.Sprintf("locking=%v", locking), fmt.Sprintf("divisible=%v", divisible)}
	switch {
	case wheelLen <= 4:
		ls = append(ls, "wheelLen<=4")
	case wheelLen <= 64:
		ls = append(ls, "wheelLen<=64")
	default:
		ls = append(ls, "wheelLen>64")
	}
	for l := range labels {
		ls = append(ls, l)
	}
	if longGapWithPending {
		ls = append(ls, "nontrivial")
	}
	if nItems == 0 {
		ls = append(ls, "no-items")
	}
	vk.Case(c33PID, r.hist(), longGapWithPending, ls...)
	if longGapWithPending && vk.WantSample(c33PID) {
		vk.Sample(c33PID, map[string]any{"tick_ns": tick, "span_ns": span, "locking": locking, "ops": r.ops})
	}
}

func TestC33_Model(t *testing.T) {
	vk.Check(t, 60000, c33Property)
}

// More items than the recycled-item cache holds (timerCacheMax): items go through
// purge -> cache (full) -> re-add several times.
func TestC33_CacheChurn(t *testing.T) {
	vk.Check(t, 4, func(rt *rapid.T) {
		tick := rapid.SampledFrom([]int64{1, 10, int64(time.Millisecond)}).Draw(rt, "tick")
		ratio := rapid.Int64Range(2, 40).Draw(rt, "ratio")
		span := ratio*tick + rapid.Int64Range(0, tick-1).Draw(rt, "rem")
		locking := rapid.Bool().Draw(rt, "locking")
		var w c33Wheel
		if locking {
			w = NewLockingTimerWheel[int](time.Duration(tick), time.Duration(span))
		} else {
			w = NewTimerWheel[int](time.Duration(tick), time.Duration(span))
		}
		r := &c33Run{rt: rt, w: w, tick: tick, span: span, base: time.Unix(1_700_000_000, 0)}
		r.advance(0)
		rounds := rapid.IntRange(2, 3).Draw(rt, "rounds")
		seed := rapid.Uint64().Draw(rt, "mix")
		for round := 0; round < rounds; round++ {
			n := timerCacheMax + rapid.IntRange(1, 5000).Draw(rt, "extra")
			for j := 0; j < n; j++ {
				// cheap deterministic spread of timeouts derived from a drawn value
				seed = seed*6364136223846793005 + 1442695040888963407
				d := int64(seed>>33) % (span + 2*tick)
				r.items = append(r.items, &c33Item{due: c33Due(r.now, d, tick, span), added: r.now, d: d})
				w.Add(len(r.items)-1, time.Duration(d))
				if j%1000 == 999 {
					// advance a little while adding (keeps the Add precondition: Advance then Add)
					r.now += tick / 2
					w.Advance(r.base.Add(time.Duration(r.now)))
				}
			}
			r.ops = append(r.ops, fmt.Sprintf("bulk-add(%d)", n))
			r.advance(rapid.Int64Range(1, ratio+3).Draw(rt, "k") * tick)
			r.purge(-1)
			r.checkNotLate()
			r.ops = r.ops[:0]
		}
		r.finish()
		vk.Case(c33PID, fmt.Sprintf("churn/%d/%d/%d/%v/%d", tick, span, rounds, locking, seed), false, "cache-churn", fmt.Sprintf("locking=%v", locking))
	})
}
