package nebula

// C16 - firewall verdicts follow the rule semantics (DESIGN.md section 4).
// Real Firewall (rules added through AddRule) against the flat reference evaluator in
// fwref_test.go, on packets whose addresses satisfy the C17 address precondition so that the rule
// layer alone decides. Fresh conntrack per verdict.

import (
	"fmt"
	"net/netip"
	"testing"
	"time"

	"github.com/slackhq/nebula/firewall"
	"pgregory.net/rapid"
	"verifkit/vk"
)

func c16GenRules(rt *rapid.T, incoming bool) []fwrRule {
	n := rapid.SampledFrom([]int{0, 1, 1, 2, 2, 3, 3, 4, 5, 6, 8}).Draw(rt, "nRules")
	rules := fwrGenRuleSet(rt, n, incoming, 5)
	// a quarter of the rule sets live in ONE proto/port/CA bucket of the real table, so that the
	// merged per-bucket structures (shared Any, Hosts, CIDR tree, group list) carry several rules
	if n >= 2 && rapid.IntRange(0, 3).Draw(rt, "oneBucket") == 0 {
		for i := range rules {
			rules[i].Incoming, rules[i].Proto = rules[0].Incoming, rules[0].Proto
			rules[i].Start, rules[i].End = rules[0].Start, rules[0].End
			rules[i].CAName, rules[i].CASha = rules[0].CAName, rules[0].CASha
		}
	}
	return rules
}

func c16CheckVerdict(rt *rapid.T, fw *Firewall, rules []fwrRule, n fwrNode, peer fwrPeer, h *HostInfo, p firewall.Packet, incoming bool) (allowed bool, deciding int, near string) {
	allowed, deciding, near = fwrAllowed(rules, n, peer, fwrTrusted, p, incoming)
	fwrFreshConntrack(fw)
	err := fw.Drop(p, incoming, h, fwrPool(fwrTrusted), nil)
	if (err == nil) != allowed {
		rt.Fatalf("verdict differs from rule semantics: Drop=%v reference allowed=%v (deciding rule %d)\n packet=%+v incoming=%v\n rules=%v\n node=%+v\n peer=%+v\n pool=%v",
			err, allowed, deciding, p, incoming, rules, n, peer, fwrTrusted)
	}
	_, tracked := fw.Conntrack.Conns[p]
	if allowed && !tracked {
		rt.Fatalf("allowed packet was not tracked: packet=%+v incoming=%v rules=%v", p, incoming, rules)
	}
	if !allowed && err != ErrNoMatchingRule {
		rt.Fatalf("packet with authentic addresses dropped for %v instead of the rule layer: packet=%+v node=%+v peer=%+v", err, p, n, peer)
	}
	return
}

func TestC16_VerdictsMatchReference(t *testing.T) {
	vk.Check(t, 5000, func(rt *rapid.T) {
		n := fwrGenNode(rt)
		peer := fwrGenPeer(rt, n, 0, true)
		incoming := rapid.Bool().Draw(rt, "incoming")
		rules := c16GenRules(rt, incoming)
		var target *firewall.Packet
		if rapid.IntRange(0, 5).Draw(rt, "ladderMode") == 0 {
			// nested remote (or local) prefixes around one target packet, all in one bucket
			t0 := fwrGenPacket(rt, n, peer)
			target = &t0
			rules = c16Ladder(rt, t0, incoming)
		}
		if target == nil && rapid.IntRange(0, 7).Draw(rt, "caPairMode") == 0 {
			// one proto/port bucket holding ca_sha and ca_name rules that both name the peer's CA (or
			// another one), each with its own peer selector: the verdict must be the OR of the rules,
			// not whatever the first CA table says
			t0 := fwrGenPacket(rt, n, peer)
			target = &t0
			rules = c16CAPair(rt, peer, incoming)
		}
		fw, err := fwrNewFirewall(n, time.Minute, time.Minute, time.Minute, rules)
		if err != nil {
			rt.Fatalf("rule set refused: %v", err)
		}
		h := fwrHost(n, peer)
		envKey := fwrEnvKey(n, peer) + "#" + fwrRulesKey(rules)
		for k := 0; k < 4; k++ {
			p := fwrGenPacket(rt, n, peer)
			dir := incoming
			if rapid.IntRange(0, 5).Draw(rt, "probeOtherDir") == 0 {
				dir = !incoming
			}
			if target != nil && k < 2 {
				p, dir = *target, incoming
				if k == 1 { // same addresses, other port/protocol draws
					q := fwrGenPacket(rt, n, peer)
					p.LocalPort, p.RemotePort, p.Protocol, p.Fragment = q.LocalPort, q.RemotePort, q.Protocol, q.Fragment
				}
			}
			allowed, deciding, near := c16CheckVerdict(rt, fw, rules, n, peer, h, p, dir)
			nt := (allowed && len(rules) >= 2 && deciding > 0) || (!allowed && near != "")
			lab := "deny-no-nearmiss"
			switch {
			case allowed && deciding == 0:
				lab = "allow-first-rule"
			case allowed:
				lab = "allow-later-rule"
			case near != "":
				lab = "deny-nearmiss-" + near
			}
			proto := fmt.Sprintf("pkt-proto-%d", p.Protocol)
			frag := ""
			if p.Fragment {
				frag = "pkt-fragment"
			}
			simple := "host-bart"
			if h.networks == nil {
				simple = "host-simple"
			}
			unsafeLocal := ""
			if !c16LocalIsOverlay(n, p) {
				unsafeLocal = "local-in-unsafe-net"
			}
			nested := ""
			if allowed && fwrLessSpecificDecides(rules, n, peer, fwrTrusted, p, dir) {
				nested = "allow-only-via-less-specific-cidr"
			}
			vk.Case("C16", fmt.Sprintf("%s#%+v#%v", envKey, p, dir), nt, lab, proto, frag, simple, unsafeLocal, nested)
			if nt && vk.WantSample("C16") {
				vk.Sample("C16", map[string]any{"rules": fmt.Sprint(rules), "node": fmt.Sprintf("%+v", n), "peer": fmt.Sprintf("%+v", peer),
					"packet": fmt.Sprintf("%+v", p), "incoming": dir, "allowed": allowed, "deciding": deciding, "nearMiss": near})
			}
		}
	})
}

// c16CAPair: 2-4 rules for any protocol and any port that differ in their CA selector (ca_sha of
// the peer's issuer / another fingerprint, ca_name of the peer's CA / another name, none) and in
// their peer selector (matching everybody, or a group/host the peer may not have).
func c16CAPair(rt *rapid.T, peer fwrPeer, incoming bool) []fwrRule {
	n := rapid.IntRange(2, 4).Draw(rt, "caPairN")
	var rules []fwrRule
	for i := 0; i < n; i++ {
		r := fwrRule{Incoming: incoming, Proto: firewall.ProtoAny, Start: 0, End: 0}
		switch rapid.IntRange(0, 4).Draw(rt, "caPairKind") {
		case 0:
			r.CASha = peer.Issuer
		case 1:
			r.CAName = fwrTrusted[peer.Issuer]
		case 2:
			r.CASha = rapid.SampledFrom(fwrRuleCAShas).Draw(rt, "caPairSha")
		case 3:
			r.CAName = rapid.SampledFrom(fwrRuleCANames).Draw(rt, "caPairName")
		}
		switch rapid.IntRange(0, 3).Draw(rt, "caPairSel") {
		case 0:
			r.Host = "any"
		case 1:
			r.Groups = []string{rapid.SampledFrom(fwrGroups).Draw(rt, "caPairGroup")}
		case 2:
			r.Host = rapid.SampledFrom(fwrRuleHosts).Draw(rt, "caPairHost")
		default:
			r.CIDR = "0.0.0.0/0"
		}
		if r.CASha == "" && r.CAName == "" && r.Host == "" && len(r.Groups) == 0 && r.CIDR == "" {
			r.Host = "any"
		}
		rules = append(rules, r)
	}
	return rules
}

// c16Ladder: 2-4 rules in one proto/port/CA bucket whose remote cidr (and local_cidr) are nested
// prefixes of the target packet's addresses or unrelated prefixes.
func c16Ladder(rt *rapid.T, t0 firewall.Packet, incoming bool) []fwrRule {
	base := fwrGenRule(rt, incoming)
	base.Groups, base.Host = nil, ""
	if rapid.Bool().Draw(rt, "ladderAnyPort") {
		base.Start, base.End = 0, 0
	}
	if rapid.Bool().Draw(rt, "ladderAnyProto") {
		base.Proto = firewall.ProtoAny
	}
	if rapid.IntRange(0, 2).Draw(rt, "ladderKeepCA") != 0 {
		base.CAName, base.CASha = "", ""
	}
	around := func(a netip.Addr, label string) string {
		bits := []int{0, 8, 16, 24, 30, 31, 32}
		if a.Is6() {
			bits = []int{0, 16, 48, 64, 126, 127, 128}
		}
		switch rapid.IntRange(0, 7).Draw(rt, label+"Kind") {
		case 0:
			return ""
		case 1:
			return "any"
		case 2:
			return rapid.SampledFrom(fwrRuleLocals).Draw(rt, label+"Other")
		}
		pf, _ := a.Prefix(rapid.SampledFrom(bits).Draw(rt, label+"Bits"))
		return pf.String()
	}
	n := rapid.IntRange(2, 4).Draw(rt, "ladderLen")
	rules := make([]fwrRule, n)
	for i := range rules {
		r := base
		r.CIDR = around(t0.RemoteAddr, "ladderCIDR")
		r.LocalCIDR = around(t0.LocalAddr, "ladderLocal")
		if rapid.IntRange(0, 3).Draw(rt, "ladderGroup") == 0 {
			r.Groups = []string{rapid.SampledFrom(fwrGroups).Draw(rt, "ladderG")}
		}
		rules[i] = r
	}
	return rules
}

func c16LocalIsOverlay(n fwrNode, p firewall.Packet) bool {
	for _, nw := range n.Networks {
		if nw.Addr() == p.LocalAddr {
			return true
		}
	}
	return false
}

// Metamorphic companion: the verdict does not depend on the order in which the rules were added,
// nor on splitting a rule that names several selectors into one rule per selector (the peer clause
// is an OR), nor on writing ca_name and ca_sha in two rules instead of one (the CA clause is an OR).
func TestC16_OrderAndSplitInvariance(t *testing.T) {
	vk.Check(t, 2500, func(rt *rapid.T) {
		n := fwrGenNode(rt)
		peer := fwrGenPeer(rt, n, 0, true)
		incoming := rapid.Bool().Draw(rt, "incoming")
		rules := c16GenRules(rt, incoming)
		// transformed copy
		var tr []fwrRule
		split := 0
		for _, r := range rules {
			isAny := (len(r.Groups) == 0 && r.Host == "" && r.CIDR == "") || r.Host == "any" || r.CIDR == "any"
			for _, g := range r.Groups {
				if g == "any" {
					isAny = true
				}
			}
			nsel := 0
			if len(r.Groups) > 0 {
				nsel++
			}
			if r.Host != "" {
				nsel++
			}
			if r.CIDR != "" {
				nsel++
			}
			if !isAny && nsel >= 2 && rapid.Bool().Draw(rt, "splitSelectors") {
				split++
				if len(r.Groups) > 0 {
					c := r
					c.Host, c.CIDR = "", ""
					tr = append(tr, c)
				}
				if r.Host != "" {
					c := r
					c.Groups, c.CIDR = nil, ""
					tr = append(tr, c)
				}
				if r.CIDR != "" {
					c := r
					c.Groups, c.Host = nil, ""
					tr = append(tr, c)
				}
				continue
			}
			if r.CAName != "" && r.CASha != "" && rapid.Bool().Draw(rt, "splitCA") {
				split++
				a, b := r, r
				a.CAName = ""
				b.CASha = ""
				tr = append(tr, a, b)
				continue
			}
			tr = append(tr, r)
		}
		tr = rapid.Permutation(tr).Draw(rt, "order")
		fw1, err := fwrNewFirewall(n, time.Minute, time.Minute, time.Minute, rules)
		if err != nil {
			rt.Fatalf("rule set refused: %v", err)
		}
		fw2, err := fwrNewFirewall(n, time.Minute, time.Minute, time.Minute, tr)
		if err != nil {
			rt.Fatalf("transformed rule set refused: %v", err)
		}
		h := fwrHost(n, peer)
		for k := 0; k < 4; k++ {
			p := fwrGenPacket(rt, n, peer)
			fwrFreshConntrack(fw1)
			fwrFreshConntrack(fw2)
			e1 := fw1.Drop(p, incoming, h, fwrPool(fwrTrusted), nil)
			e2 := fw2.Drop(p, incoming, h, fwrPool(fwrTrusted), nil)
			if (e1 == nil) != (e2 == nil) {
				rt.Fatalf("verdict depends on rule order/splitting: %v vs %v\n packet=%+v incoming=%v\n rules=%v\n transformed=%v\n node=%+v peer=%+v", e1, e2, p, incoming, rules, tr, n, peer)
			}
			lab := "meta-reordered"
			if split > 0 {
				lab = "meta-split"
			}
			vk.Case("C16", fmt.Sprintf("meta#%s#%s#%s#%+v", fwrEnvKey(n, peer), fwrRulesKey(rules), fwrRulesKey(tr), p), len(rules) >= 2, lab)
		}
	})
}
