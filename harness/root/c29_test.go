package nebula

// C29 - local tunnel indexes are unique and never zero.
//
// crypto/rand.Reader is replaced (per case, restored afterwards) by a wrapper that answers 4-byte
// reads - the ones generateIndex makes - from a rapid-drawn stream over {0..k}, k in 3..6, so the
// 2^-32 collision branches of allocateIndex, CheckAndComplete and AddRelay are taken constantly.
// One real node (HostMap + HandshakeManager + relay allocation, wired like the unit tests but with a
// real CertState/CA so that real IX handshakes run) is driven through histories of handshake starts,
// timer ticks (stage-0 build, retries, timeouts), genuine / wrong-host / replayed stage-2 replies,
// incoming stage-1 packets (fresh and replayed), tunnel closes (incl. stale second closes), recv_error
// and relay allocations. The peers are played by the harness with handshake.Machine and their own
// credentials; their (remote) indexes come from a small space too.
//
// Oracle: invariants over the observed history, independent of any model of the code:
//   - 0 is never a key of the pending index map, Indexes or Relays;
//   - every entry is filed under the owner's own index, pending and main never hold the same index
//     for different tunnels, and every reachable tunnel / relay still resolves through its index;
//   - an index entry disappears only in a step after which its owner is referenced nowhere (or,
//     for a pending one, moved to the main map under the same index);
//   - a RemoteIndexes entry disappears only together with the tunnel it pointed to;
//   - an allocation either fails with an error or returns a non-zero index nobody held.

import (
	"context"
	"crypto/rand"
	"encoding/binary"
	"fmt"
	"io"
	"net/netip"
	"slices"
	"sort"
	"strings"
	"sync"
	"testing"
	"time"

	"github.com/rcrowley/go-metrics"
	"github.com/slackhq/nebula/cert"
	"github.com/slackhq/nebula/cert_test"
	"github.com/slackhq/nebula/config"
	"github.com/slackhq/nebula/handshake"
	"github.com/slackhq/nebula/header"
	"github.com/slackhq/nebula/overlay/overlaytest"
	"github.com/slackhq/nebula/test"
	"github.com/slackhq/nebula/udp"
	"pgregory.net/rapid"
	"verifkit/vk"
)

const c29PID = "C29"
const c29KeyStale = "stale-delete-after-index-reuse"

// ---- rand.Reader replacement -----------------------------------------------------------------------

type c29Rand struct {
	rt    *rapid.T
	k     uint32
	real  io.Reader
	zeros int
	// produced since the last reset: every 4-byte value handed out
	produced []uint32
	nzero    int
}

func (r *c29Rand) Read(p []byte) (int, error) {
	if len(p) != 4 {
		return io.ReadFull(r.real, p)
	}
	var v uint32
	if r.zeros >= 2 {
		// generateIndex loops while it reads zero; never feed more than two zeros in a row so
		// that a shrunk (all-minimal) stream still terminates
		v = rapid.Uint32Range(1, r.k).Draw(r.rt, "rand4nz")
	} else {
		v = rapid.Uint32Range(0, r.k).Draw(r.rt, "rand4")
	}
	if v == 0 {
		r.zeros++
		r.nzero++
	} else {
		r.zeros = 0
	}
	r.produced = append(r.produced, v)
	binary.BigEndian.PutUint32(p, v)
	return 4, nil
}

// ---- fixed PKI: one CA, me, four peers -------------------------------------------------------------

type c29Party struct {
	cs    *CertState
	addrs []netip.Addr
	udp   netip.AddrPort
}

var (
	c29Once   sync.Once
	c29CAPool *cert.CAPool
	c29Me     *c29Party
	c29Peers  []*c29Party
)

func c29Setup() {
	c29Once.Do(func() {
		before := time.Now().Add(-time.Hour)
		after := time.Now().Add(24 * 365 * time.Hour)
		ca, _, caKey, _ := cert_test.NewTestCaCert(cert.Version2, cert.Curve_CURVE25519, before, after, nil, nil, nil)
		c29CAPool = cert.NewCAPool()
		if err := c29CAPool.AddCA(ca); err != nil {
			panic(err)
		}
		mk := func(name string, port uint16, nets ...string) *c29Party {
			var pfx []netip.Prefix
			var addrs []netip.Addr
			for _, n := range nets {
				p := netip.MustParsePrefix(n)
				pfx = append(pfx, p)
				addrs = append(addrs, p.Addr())
			}
			c, _, privPEM, _ := cert_test.NewTestCert(cert.Version2, cert.Curve_CURVE25519, ca, caKey, name, before, after, pfx, nil, nil)
			priv, _, _, err := cert.UnmarshalPrivateKeyFromPEM(privPEM)
			if err != nil {
				panic(err)
			}
			cs, err := newCertState(cert.Version2, nil, c, false, cert.Curve_CURVE25519, priv, "aes")
			if err != nil {
				panic(err)
			}
			return &c29Party{cs: cs, addrs: addrs, udp: netip.AddrPortFrom(netip.MustParseAddr("192.0.2.1"), port)}
		}
		c29Me = mk("me", 4242, "10.29.0.1/24")
		c29Peers = []*c29Party{
			mk("p1", 5001, "10.29.0.2/24"),
			mk("p2", 5002, "10.29.0.3/24"),
			mk("p3", 5003, "10.29.0.4/24", "10.29.1.4/24"), // second address outside my networks
			mk("p4", 5004, "10.29.0.5/24"),
		}
	})
}

func c29Verifier(c cert.Certificate) (*cert.CachedCertificate, error) {
	return c29CAPool.VerifyCertificate(time.Now(), c)
}

// ---- world -----------------------------------------------------------------------------------------

type c29TB interface {
	Helper()
	Fatalf(format string, args ...any)
}

type c29World struct {
	tb   c29TB
	rt   *rapid.T
	rnd  *c29Rand
	hm   *HostMap
	hsm  *HandshakeManager
	lh   *LightHouse
	f    *Interface
	now  time.Time
	seen []*HostInfo // every hostinfo that was ever in the main hostmap, in order of appearance
	// packets produced by the peers, kept for replays
	replies [][]byte
	stage1s []c29Pkt
	ops     []string

	collisions, zeroSkips, allocFails, staleCloses int
}

type c29Pkt struct {
	peer int
	b    []byte
}

func c29NewWorld(tb c29TB, rt *rapid.T, rnd *c29Rand) *c29World {
	l := test.NewLogger()
	hm := newHostMap(l)
	pr := []netip.Prefix{}
	hm.preferredRanges.Store(&pr)
	conf := config.NewC(l)
	lh, err := NewLightHouseFromConfig(context.Background(), l, conf, c29Me.cs, nil, nil)
	if err != nil {
		tb.Fatalf("lighthouse: %v", err)
	}
	hsm := NewHandshakeManager(l, hm, lh, &udp.NoopConn{}, defaultHandshakeConfig)
	punchy := NewPunchyFromConfig(l, conf, nil)
	cm := newConnectionManagerFromConfig(l, conf, hm, punchy)
	rm := NewRelayManager(context.Background(), l, hm, conf)
	f := &Interface{
		hostMap:            hm,
		inside:             &overlaytest.NoopTun{},
		outside:            &udp.NoopConn{},
		writers:            []udp.Conn{&udp.NoopConn{}},
		firewall:           &Firewall{},
		lightHouse:         lh,
		pki:                &PKI{},
		handshakeManager:   hsm,
		connectionManager:  cm,
		relayManager:       rm,
		myVpnAddrs:         c29Me.cs.myVpnAddrs,
		myVpnAddrsTable:    c29Me.cs.myVpnAddrsTable,
		myVpnNetworksTable: c29Me.cs.myVpnNetworksTable,
		metricHandshakes:   metrics.NewHistogram(metrics.NewUniformSample(8)),
		cachedPacketMetrics: &cachedPacketMetrics{
			sent:    metrics.NewCounter(),
			dropped: metrics.NewCounter(),
		},
		l: l,
	}
	f.pki.cs.Store(c29Me.cs)
	f.pki.caPool.Store(c29CAPool)
	f.tryPromoteEvery.Store(1000)
	f.reQueryEvery.Store(5000)
	f.reQueryWait.Store(int64(time.Minute))
	cm.intf = f
	hsm.f = f
	w := &c29World{tb: tb, rt: rt, rnd: rnd, hm: hm, hsm: hsm, lh: lh, f: f, now: time.Unix(1_000_000_000, 0)}
	hsm.NextOutboundHandshakeTimerTick(w.now)
	return w
}

func (w *c29World) drain() {
	for {
		select {
		case <-w.lh.queryChan:
		case <-w.hsm.trigger:
		default:
			return
		}
	}
}

func (w *c29World) logf(format string, args ...any) {
	w.ops = append(w.ops, fmt.Sprintf(format, args...))
}

// ---- snapshots and the oracle ---------------------------------------------------------------------

type c29Snap struct {
	main   map[uint32]*HostInfo
	remote map[uint32]*HostInfo
	relays map[uint32]*HostInfo
	pend   map[uint32]*HandshakeHostInfo
	reach  map[*HostInfo]bool // referenced from any main hostmap map
	listed map[*HostInfo]bool // referenced from Hosts / moreHosts
	preach map[*HostInfo]bool // referenced from the pending maps
}

func c29Copy[K comparable, V any](m map[K]V) map[K]V {
	out := make(map[K]V, len(m))
	for k, v := range m {
		out[k] = v
	}
	return out
}

func (w *c29World) snap() *c29Snap {
	s := &c29Snap{main: c29Copy(w.hm.Indexes), remote: c29Copy(w.hm.RemoteIndexes), relays: c29Copy(w.hm.Relays),
		pend: c29Copy(w.hsm.indexes), reach: map[*HostInfo]bool{}, listed: map[*HostInfo]bool{}, preach: map[*HostInfo]bool{}}
	for _, h := range w.hm.Hosts {
		s.reach[h], s.listed[h] = true, true
	}
	for _, l := range w.hm.moreHosts {
		for _, h := range l {
			s.reach[h], s.listed[h] = true, true
		}
	}
	for _, m := range []map[uint32]*HostInfo{s.main, s.remote, s.relays} {
		for _, h := range m {
			s.reach[h] = true
		}
	}
	for _, hh := range w.hsm.vpnIps {
		s.preach[hh.hostinfo] = true
	}
	for _, hh := range w.hsm.indexes {
		s.preach[hh.hostinfo] = true
	}
	return s
}

func (w *c29World) fail(format string, args ...any) {
	w.tb.Helper()
	w.tb.Fatalf("%s\nhistory:\n  %s", fmt.Sprintf(format, args...), strings.Join(w.ops, "\n  "))
}

func c29HI(h *HostInfo) string {
	if h == nil {
		return "<nil>"
	}
	return fmt.Sprintf("hostinfo{local=%d remote=%d addrs=%v}", h.localIndexId, h.remoteIndexId, h.vpnAddrs)
}

func (w *c29World) oracle(before, after *c29Snap) {
	// never zero, filed under the owner's own index
	for i, h := range after.main {
		if i == 0 || h == nil || h.localIndexId != i {
			w.fail("Indexes[%d] holds %s", i, c29HI(h))
		}
	}
	for i, hh := range after.pend {
		if i == 0 || hh == nil || hh.hostinfo.localIndexId != i {
			w.fail("pending indexes[%d] holds %s", i, c29HI(hh.hostinfo))
		}
		if m, ok := after.main[i]; ok && m != hh.hostinfo {
			w.fail("index %d is held by pending %s and by established %s", i, c29HI(hh.hostinfo), c29HI(m))
		}
	}
	for i, h := range after.relays {
		if i == 0 || h == nil {
			w.fail("Relays[%d] holds %s", i, c29HI(h))
		}
		if _, ok := h.relayState.QueryRelayForByIdx(i); !ok {
			w.fail("Relays[%d] points to %s which has no such relay", i, c29HI(h))
		}
	}
	// every tunnel we can still reach by address resolves through its own index, and so do its relays
	for h := range after.listed {
		if after.main[h.localIndexId] != h {
			w.fail("%s is still listed under its addresses but Indexes[%d] = %s: its index was released (or handed to another tunnel) while it is alive",
				c29HI(h), h.localIndexId, c29HI(after.main[h.localIndexId]))
		}
		for _, r := range h.relayState.CopyRelayForIdxs() {
			if after.relays[r] != h {
				w.fail("live %s owns relay index %d but Relays[%d] = %s", c29HI(h), r, r, c29HI(after.relays[r]))
			}
		}
	}
	for _, hh := range w.hsm.vpnIps {
		if i := hh.hostinfo.localIndexId; i != 0 && after.pend[i] != hh {
			w.fail("pending %s has index %d but pending indexes[%d] does not point to it", c29HI(hh.hostinfo), i, i)
		}
	}
	// release discipline
	for i, h := range before.main {
		if after.main[i] != h && after.reach[h] {
			w.fail("Indexes[%d] no longer points to %s (now %s) although that tunnel is still referenced by the hostmap", i, c29HI(h), c29HI(after.main[i]))
		}
	}
	for i, hh := range before.pend {
		if after.pend[i] != hh && after.main[i] != hh.hostinfo && after.preach[hh.hostinfo] {
			w.fail("pending indexes[%d] was released while its handshake %s is still pending", i, c29HI(hh.hostinfo))
		}
	}
	for i, h := range before.relays {
		if after.relays[i] != h && after.reach[h] {
			w.fail("Relays[%d] no longer points to %s (now %s) although that tunnel is still referenced by the hostmap", i, c29HI(h), c29HI(after.relays[i]))
		}
	}
	for i, h := range before.remote {
		if _, ok := after.remote[i]; !ok && after.reach[h] {
			w.fail("RemoteIndexes[%d] (-> %s) was removed although that tunnel is still referenced by the hostmap", i, c29HI(h))
		}
	}
}

func (w *c29World) remember(after *c29Snap) {
	var fresh []*HostInfo
	for _, h := range after.main {
		if !slices.Contains(w.seen, h) {
			fresh = append(fresh, h)
		}
	}
	sort.Slice(fresh, func(i, j int) bool { return fresh[i].localIndexId < fresh[j].localIndexId })
	w.seen = append(w.seen, fresh...)
}

// account classifies the 4-byte values the wrapper handed out during one step.
func (w *c29World) account(before *c29Snap, relay bool) {
	for _, v := range w.rnd.produced {
		if v == 0 {
			continue
		}
		held := false
		if relay {
			_, held = before.relays[v]
		} else {
			_, m := before.main[v]
			_, p := before.pend[v]
			held = m || p
		}
		if held {
			w.collisions++
		}
	}
	w.zeroSkips += w.rnd.nzero
	w.rnd.produced, w.rnd.nzero = w.rnd.produced[:0], 0
}

// ---- operations ----------------------------------------------------------------------------------------

func (w *c29World) peerAlloc(label string) handshake.IndexAllocator {
	return func() (uint32, error) { return rapid.Uint32Range(1, 4).Draw(w.rt, label), nil }
}

func (w *c29World) deliver(from netip.AddrPort, pkt []byte) {
	var h header.H
	if err := h.Parse(pkt); err != nil {
		w.fail("harness built an unparsable packet: %v", err)
	}
	w.hsm.HandleIncoming(ViaSender{UdpAddr: from}, pkt, &h)
	w.drain()
}

var c29Ops = []string{
	// rapid favours the front of a SampledFrom list: the tunnel-producing operations come first
	"stage1", "reply", "tick", "close", "relay", "start",
	"stage1", "reply", "tick", "close", "relay", "start",
	"stage1", "reply", "tick", "close", "relay", "tick",
	"recvError", "replayStage1", "replayReply", "reply",
}

func (w *c29World) step() {
	rt := w.rt
	op := rapid.SampledFrom(c29Ops).Draw(rt, "op")
	before := w.snap()
	relayOp := false
	switch op {
	case "start":
		k := rapid.IntRange(0, len(c29Peers)-1).Draw(rt, "peer")
		a := c29Peers[k].addrs[0]
		w.logf("StartHandshake %v", a)
		w.hsm.StartHandshake(a, nil)
		w.drain()
		vk.Label(c29PID, "op:start")

	case "tick":
		d := rapid.SampledFrom([]time.Duration{100 * time.Millisecond, 200 * time.Millisecond, 500 * time.Millisecond, time.Second, 3 * time.Second}).Draw(rt, "dt")
		reps := rapid.SampledFrom([]int{1, 1, 1, 3, 6, 12}).Draw(rt, "reps")
		w.logf("tick %d x +%v", reps, d)
		for r := 0; r < reps; r++ {
			if r > 0 {
				// every single tick is a step of its own for the oracle
				after := w.snap()
				w.account(before, false)
				w.oracle(before, after)
				before = after
			}
			w.now = w.now.Add(d)
			npend := len(w.hsm.vpnIps)
			w.hsm.NextOutboundHandshakeTimerTick(w.now)
			w.drain()
			// an allocation that failed (32 tries) must leave the handshake without an index and not ready
			for _, hh := range w.hsm.vpnIps {
				if hh.ready && hh.hostinfo.localIndexId == 0 {
					w.fail("pending handshake to %v is ready without a local index", hh.hostinfo.vpnAddrs)
				}
				if !hh.ready && hh.counter > 0 {
					w.allocFails++
				}
			}
			if len(w.hsm.vpnIps) < npend {
				vk.Label(c29PID, "op:tick-timeout")
			}
			vk.Label(c29PID, "op:tick")
		}

	case "reply":
		k := rapid.IntRange(0, len(c29Peers)-1).Draw(rt, "peer")
		hh := w.hsm.vpnIps[c29Peers[k].addrs[0]]
		if hh == nil || !hh.ready {
			return
		}
		j := k
		if rapid.IntRange(0, 7).Draw(rt, "wrongHost") == 0 {
			j = (k + 1 + rapid.IntRange(0, len(c29Peers)-2).Draw(rt, "other")) % len(c29Peers)
		}
		m, err := handshake.NewMachine(cert.Version2, c29Peers[j].cs.GetCredential, c29Verifier, w.peerAlloc("peerIdx"), false, header.HandshakeIXPSK0)
		if err != nil {
			w.fail("peer machine: %v", err)
		}
		resp, _, err := m.ProcessPacket(nil, hh.hostinfo.HandshakePacket[handshakePacketStage0])
		if err != nil || resp == nil {
			w.fail("peer could not answer our stage 0: %v", err)
		}
		w.replies = append(w.replies, resp)
		w.logf("stage-2 reply for %v from peer %d (our index %d)", c29Peers[k].addrs[0], j+1, hh.hostinfo.localIndexId)
		w.deliver(c29Peers[j].udp, resp)
		if j != k {
			vk.Label(c29PID, "op:reply-wrong-host")
		} else {
			vk.Label(c29PID, "op:reply")
		}

	case "replayReply":
		if len(w.replies) == 0 {
			return
		}
		i := rapid.IntRange(0, len(w.replies)-1).Draw(rt, "which")
		w.logf("replay stage-2 reply #%d", i)
		w.deliver(c29Peers[0].udp, w.replies[i])
		vk.Label(c29PID, "op:reply-replayed")

	case "stage1":
		k := rapid.IntRange(0, len(c29Peers)-1).Draw(rt, "peer")
		m, err := handshake.NewMachine(cert.Version2, c29Peers[k].cs.GetCredential, c29Verifier, w.peerAlloc("peerIdx"), true, header.HandshakeIXPSK0)
		if err != nil {
			w.fail("peer machine: %v", err)
		}
		msg, err := m.Initiate(nil)
		if err != nil {
			w.fail("peer initiate: %v", err)
		}
		w.stage1s = append(w.stage1s, c29Pkt{k, msg})
		w.logf("stage-1 from peer %d", k+1)
		n := len(before.main)
		w.deliver(c29Peers[k].udp, msg)
		if len(w.hm.Indexes) > n {
			vk.Label(c29PID, "op:stage1-accepted")
		} else {
			vk.Label(c29PID, "op:stage1-refused")
		}

	case "replayStage1":
		if len(w.stage1s) == 0 {
			return
		}
		i := rapid.IntRange(0, len(w.stage1s)-1).Draw(rt, "which")
		w.logf("replay stage-1 #%d", i)
		w.deliver(c29Peers[w.stage1s[i].peer].udp, w.stage1s[i].b)
		vk.Label(c29PID, "op:stage1-replayed")

	case "close":
		if len(w.seen) == 0 {
			return
		}
		h := rapid.SampledFrom(w.seen).Draw(rt, "hostinfo")
		stale := before.main[h.localIndexId] != h
		if stale {
			// second close of an already removed tunnel. Recorded defect class: its local index
			// (or a relay index it still remembers) has meanwhile been handed to another tunnel.
			inClass := before.main[h.localIndexId] != nil
			for _, r := range h.relayState.CopyRelayForIdxs() {
				if before.relays[r] != nil {
					inClass = true
				}
			}
			if inClass && vk.KnownOpen(c29PID, c29KeyStale) {
				vk.Excluded(c29PID, c29KeyStale)
				return
			}
			w.staleCloses++
			vk.Label(c29PID, "op:close-stale")
		} else {
			vk.Label(c29PID, "op:close-live")
		}
		w.logf("closeTunnel %s stale=%v", c29HI(h), stale)
		w.f.closeTunnel(h)

	case "recvError":
		if len(w.seen) == 0 {
			return
		}
		h := rapid.SampledFrom(w.seen).Draw(rt, "hostinfo")
		w.logf("recv_error for remote index %d", h.remoteIndexId)
		w.f.handleRecvError(h.GetRemote(), &header.H{Type: header.RecvError, RemoteIndex: h.remoteIndexId})
		vk.Label(c29PID, "op:recv-error")

	case "relay":
		if len(w.seen) == 0 {
			return
		}
		relayOp = true
		h := rapid.SampledFrom(w.seen).Draw(rt, "hostinfo")
		target := c29Peers[rapid.IntRange(0, len(c29Peers)-1).Draw(rt, "target")].addrs[0]
		typ := rapid.SampledFrom([]int{TerminalType, ForwardingType}).Draw(rt, "rtype")
		live := before.main[h.localIndexId] == h
		idx, err := AddRelay(w.hm.l, h, w.hm, target, nil, typ, Requested)
		w.logf("AddRelay via %s to %v -> idx=%d err=%v", c29HI(h), target, idx, err)
		switch {
		case err != nil:
			if idx != 0 {
				w.fail("AddRelay failed (%v) but returned index %d", err, idx)
			}
			if len(w.hm.Relays) != len(before.relays) {
				w.fail("AddRelay failed (%v) but changed Relays", err)
			}
			if live {
				w.allocFails++
				vk.Label(c29PID, "op:relay-alloc-failed")
			} else {
				vk.Label(c29PID, "op:relay-removed")
			}
		default:
			if idx == 0 {
				w.fail("AddRelay returned relay index 0")
			}
			if prev, ok := before.relays[idx]; ok {
				w.fail("AddRelay handed out relay index %d which %s already owns", idx, c29HI(prev))
			}
			if !live {
				w.fail("AddRelay succeeded on removed tunnel %s", c29HI(h))
			}
			vk.Label(c29PID, "op:relay")
		}
	}
	after := w.snap()
	w.account(before, relayOp)
	w.oracle(before, after)
	w.remember(after)
}

func TestC29_IndexHistories(t *testing.T) {
	c29Setup()
	realReader := rand.Reader
	vk.Check(t, 4000, func(rt *rapid.T) {
		rnd := &c29Rand{rt: rt, real: realReader, k: rapid.Uint32Range(3, 6).Draw(rt, "alphabet")}
		rand.Reader = rnd
		defer func() { rand.Reader = realReader }()
		w := c29NewWorld(rt, rt, rnd)
		n := rapid.IntRange(1, 50).Draw(rt, "nops")
		for i := 0; i < n; i++ {
			w.step()
		}
		nt := w.collisions > 0
		var labels []string
		if w.collisions > 0 {
			labels = append(labels, "hist:collision")
		}
		if w.zeroSkips > 0 {
			labels = append(labels, "hist:zero-skipped")
		}
		if w.allocFails > 0 {
			labels = append(labels, "hist:alloc-failed-32")
		}
		if w.staleCloses > 0 {
			labels = append(labels, "hist:stale-close")
		}
		if len(w.hm.Relays) > 0 {
			labels = append(labels, "hist:relays-held")
		}
		vk.LabelN(c29PID, "collisions", int64(w.collisions))
		vk.Case(c29PID, fmt.Sprintf("k=%d;%s", rnd.k, strings.Join(w.ops, ";")), nt, labels...)
		if nt && vk.WantSample(c29PID) {
			vk.Sample(c29PID, map[string]any{"alphabet": rnd.k, "collisions": w.collisions, "ops": w.ops})
		}
	})
}

// TestC29_Probe_stale_delete_after_index_reuse: real flows only. Peer 1's tunnel is closed, peer 2 handshakes in and
// (small index space) receives the same local index, then a second close of the first tunnel arrives.
func TestC29_Probe_stale_delete_after_index_reuse(t *testing.T) {
	defer vk.Flush()
	c29Setup()
	realReader := rand.Reader
	defer func() { rand.Reader = realReader }()
	rand.Reader = &c29FixedRand{real: realReader, v: 7}
	w := c29NewWorld(t, nil, nil)
	in := func(k int, idx uint32) {
		m, err := handshake.NewMachine(cert.Version2, c29Peers[k].cs.GetCredential, c29Verifier, func() (uint32, error) { return idx, nil }, true, header.HandshakeIXPSK0)
		if err != nil {
			t.Fatalf("machine: %v", err)
		}
		msg, err := m.Initiate(nil)
		if err != nil {
			t.Fatalf("initiate: %v", err)
		}
		w.deliver(c29Peers[k].udp, msg)
	}
	in(0, 11)
	A := w.hm.Indexes[7]
	if A == nil {
		t.Fatalf("first handshake did not produce a tunnel with index 7")
	}
	w.f.closeTunnel(A)
	in(1, 12)
	B := w.hm.Indexes[7]
	if B == nil || B == A {
		t.Fatalf("second handshake did not re-use index 7")
	}
	w.f.closeTunnel(A) // stale second close
	reproduced := w.hm.Indexes[7] != B && w.hm.Hosts[c29Peers[1].addrs[0]] == B
	if !reproduced {
		return
	}
	if vk.KnownOpen(c29PID, c29KeyStale) {
		vk.ReportKnown(c29PID, c29KeyStale)
		return
	}
	t.Fatalf("local index 7 of live tunnel B was released by a second close of the already removed tunnel A (B is still primary in Hosts)")
}

type c29FixedRand struct {
	real io.Reader
	v    uint32
}

func (r *c29FixedRand) Read(p []byte) (int, error) {
	if len(p) != 4 {
		return io.ReadFull(r.real, p)
	}
	binary.BigEndian.PutUint32(p, r.v)
	return 4, nil
}

// TestC29_CompleteVersusAllocate: moving a tunnel's index from the pending table to the main table
// is one step. While one goroutine completes a handshake (initiator side, HandshakeManager.Complete)
// another one allocates an index for a new handshake, with an index generator that can only produce
// the completing tunnel's index. Whatever the interleaving, the allocation must find that index
// taken (in the pending table before the move, in the main table after it) and fail; it must never
// hand the same index to the second handshake. Real goroutines, run under generated repetition counts;
// a run in which the two calls never overlap proves nothing and is counted as such.
func TestC29_CompleteVersusAllocate(t *testing.T) {
	c29Setup()
	vk.Check(t, 30, func(rt *rapid.T) {
		realReader := rand.Reader
		defer func() { rand.Reader = realReader }()
		idx := rapid.Uint32Range(1, 1<<31).Draw(rt, "index")
		rand.Reader = &c29FixedRand{real: realReader, v: idx}
		w := c29NewWorld(c29Quiet{}, nil, nil)
		iters := rapid.IntRange(50, 300).Draw(rt, "iterations")
		dup, failed := 0, 0
		a1, a2 := c29Peers[0].addrs[0], c29Peers[1].addrs[0]
		for it := 0; it < iters; it++ {
			w.hsm.StartHandshake(a1, nil)
			hh1 := w.hsm.queryVpnIp(a1)
			if _, err := w.hsm.allocateIndex(hh1); err != nil {
				rt.Fatalf("harness: first allocation failed: %v", err)
			}
			hh1.hostinfo.remoteIndexId = 77
			w.hsm.StartHandshake(a2, nil)
			hh2 := w.hsm.queryVpnIp(a2)
			if hh1 == nil || hh2 == nil {
				rt.Fatalf("harness: pending handshakes not found")
			}
			var wg sync.WaitGroup
			var err2 error
			// stage the two calls behind the handshake manager's lock so that they really contend: the
			// completion first, the allocation second (in half of the rounds the other way round)
			w.hsm.Lock()
			wg.Add(2)
			first, second := func() { defer wg.Done(); w.hsm.Complete(hh1.hostinfo, w.f) }, func() { defer wg.Done(); _, err2 = w.hsm.allocateIndex(hh2) }
			if it%2 == 1 {
				first, second = second, first
			}
			go first()
			time.Sleep(200 * time.Microsecond)
			go second()
			time.Sleep(200 * time.Microsecond)
			w.hsm.Unlock()
			wg.Wait()
			if err2 == nil {
				dup++
				if hh2.hostinfo.localIndexId == hh1.hostinfo.localIndexId {
					rt.Fatalf("iteration %d: while the handshake with %v was being completed, a new handshake to %v was given its local index %d as well (the index was in neither table for a moment)", it, a1, a2, idx)
				}
			} else {
				failed++
			}
			// clean up for the next round
			w.hm.DeleteHostInfo(hh1.hostinfo)
			w.hsm.DeleteHostInfo(hh2.hostinfo)
			w.hsm.DeleteHostInfo(hh1.hostinfo)
		}
		vk.Case(c29PID, fmt.Sprintf("complete-vs-allocate/%d/%d", idx, iters), failed > 0, "concurrent-complete-vs-allocate", fmt.Sprintf("allocation-refused:%v", failed > 0))
	})
}

type c29Quiet struct{}

func (c29Quiet) Helper()               {}
func (c29Quiet) Fatalf(string, ...any) {}
