package nebula

// C38 - allow lists use longest-prefix semantics with a safe default.
//
// Generated allow-list configuration maps (IPv4, IPv6 and IPv4-mapped CIDR keys of every length,
// canonical or with host bits set, yaml-style boolean values, malformed keys/values, with/without
// /0 defaults), remote_allow_ranges maps and interface-name rule sets are built through the real
// constructors and queried; the answers are compared with a flat reference evaluator (linear scan
// for the longest matching prefix per family + the documented default inference) that shares no
// code with allow_list.go / bart.

import (
	"fmt"
	"net/netip"
	"sort"
	"strings"
	"testing"

	"github.com/slackhq/nebula/config"
	"github.com/slackhq/nebula/test"
	"pgregory.net/rapid"
	"verifkit/vk"
)

const c38Key = "v4-mapped-prefix"

// ---- reference -------------------------------------------------------------------------------

type c38Ent struct {
	v4    bool
	b     []byte // masked
	bits  int
	allow bool
}

type c38Ref struct {
	ents []c38Ent
	def4 bool
	def6 bool
}

func c38Bytes(a netip.Addr) (bool, []byte) {
	if a.Is4() {
		x := a.As4()
		return true, x[:]
	}
	x := a.As16()
	return false, x[:]
}

func c38Match(b, p []byte, bits int) bool {
	for i := 0; i < bits; i++ {
		if (b[i/8]^p[i/8])&(0x80>>(i%8)) != 0 {
			return false
		}
	}
	return true
}

func c38Mask(b []byte, bits int) []byte {
	out := make([]byte, len(b))
	for i := 0; i < bits; i++ {
		out[i/8] |= b[i/8] & (0x80 >> (i % 8))
	}
	return out
}

// c38ParseKey is the documented reading of a CIDR key: "<addr>/<bits>"; an IPv4-mapped IPv6
// prefix of length >= 96 is the IPv4 prefix of length bits-96. ok=false: malformed.
// mapped reports the mapped spelling. sub96: mapped address with fewer than 96 bits (no IPv4
// equivalent exists; never generated, only recognised).
func c38ParseKey(k string) (e c38Ent, mapped bool, ok bool) {
	i := strings.LastIndexByte(k, '/')
	if i < 0 {
		return e, false, false
	}
	a, err := netip.ParseAddr(k[:i])
	if err != nil || a.Zone() != "" {
		return e, false, false
	}
	bits := 0
	bs := k[i+1:]
	if bs == "" || len(bs) > 3 || (len(bs) > 1 && bs[0] == '0') {
		return e, false, false
	}
	for _, ch := range bs {
		if ch < '0' || ch > '9' {
			return e, false, false
		}
		bits = bits*10 + int(ch-'0')
	}
	if a.Is4() {
		if bits > 32 {
			return e, false, false
		}
		x := a.As4()
		return c38Ent{v4: true, b: c38Mask(x[:], bits), bits: bits}, false, true
	}
	if bits > 128 {
		return e, false, false
	}
	x := a.As16()
	if a.Is4In6() && bits >= 96 {
		return c38Ent{v4: true, b: c38Mask(x[12:], bits-96), bits: bits - 96}, true, true
	}
	return c38Ent{v4: false, b: c38Mask(x[:], bits), bits: bits}, a.Is4In6(), true
}

// c38ParseVal: yaml booleans as the config layer documents them (bool, y/yes/n/no).
// class: 0 malformed, 1 well formed, 2 not asserted either way ("true"/"false" spelled as strings).
func c38ParseVal(v any) (val bool, class int) {
	switch x := v.(type) {
	case bool:
		return x, 1
	case string:
		switch x {
		case "y", "yes":
			return true, 1
		case "n", "no":
			return false, 1
		case "true", "True", "on", "Y", "Yes", "YES":
			return true, 2
		case "false", "False", "off", "N", "No", "NO":
			return false, 2
		}
	}
	return false, 0
}

// c38Build returns the reference list, or refuse=true when the configuration must be refused
// (malformed key/value, or a family that mixes allow and deny without an explicit default).
// unsure=true: outcome not asserted (string spellings of true/false present).
func c38Build(m map[string]any, skipInterfaces bool) (r *c38Ref, refuse bool, unsure bool, hasMapped bool) {
	r = &c38Ref{}
	type fam struct {
		n, t   int
		def    bool
		defVal bool
	}
	var f4, f6 fam
	for k, v := range m {
		if skipInterfaces && k == "interfaces" {
			continue
		}
		val, cls := c38ParseVal(v)
		e, mapped, ok := c38ParseKey(k)
		if mapped {
			hasMapped = true
		}
		if cls == 0 || !ok {
			refuse = true
			continue
		}
		if cls == 2 {
			unsure = true
		}
		e.allow = val
		r.ents = append(r.ents, e)
		f := &f6
		if e.v4 {
			f = &f4
		}
		f.n++
		if val {
			f.t++
		}
		if e.bits == 0 {
			f.def, f.defVal = true, val
		}
	}
	for i, f := range []*fam{&f4, &f6} {
		var d bool
		switch {
		case f.def:
			d = f.defVal
		case f.n == 0:
			d = true
		case f.t == f.n:
			d = false
		case f.t == 0:
			d = true
		default:
			refuse = true
		}
		if i == 0 {
			r.def4 = d
		} else {
			r.def6 = d
		}
	}
	return r, refuse, unsure, hasMapped
}

func (r *c38Ref) allow(a netip.Addr) bool {
	if r == nil {
		return true
	}
	v4, b := c38Bytes(a)
	best := -1
	res := r.def6
	if v4 {
		res = r.def4
	}
	for _, e := range r.ents {
		if e.v4 == v4 && e.bits > best && c38Match(b, e.b, e.bits) {
			best, res = e.bits, e.allow
		}
	}
	return res
}

func (r *c38Ref) nested() bool {
	for i, x := range r.ents {
		for j, y := range r.ents {
			if i != j && x.v4 == y.v4 && x.bits < y.bits && c38Match(y.b, x.b, x.bits) {
				return true
			}
		}
	}
	return false
}

// ---- generators ------------------------------------------------------------------------------

var c38V4Bases = []string{"10.0.0.0", "10.42.42.0", "10.42.42.42", "192.168.0.0", "192.168.1.255", "172.16.0.0", "0.0.0.0", "255.255.255.255", "128.0.0.0", "127.255.255.255", "100.64.3.7"}
var c38V6Bases = []string{"fd00::", "fd00:fd00::", "fd00:fd00::1", "2001:db8::", "2001:db8:ffff:ffff:ffff:ffff:ffff:ffff", "::", "ffff:ffff:ffff:ffff:ffff:ffff:ffff:ffff", "fe80::1", "8000::", "::1", "64:ff9b::a00:1"}
var c38V4Bits = []int{0, 0, 1, 7, 8, 8, 9, 12, 16, 16, 23, 24, 24, 25, 30, 31, 32}
var c38V6Bits = []int{0, 0, 1, 7, 8, 16, 32, 48, 63, 64, 65, 96, 104, 127, 128}

type c38GenOpts struct {
	mapped    bool // may draw IPv4-mapped spellings
	malformed bool // may inject malformed keys / values
}

func c38NormKey(e c38Ent) string { return fmt.Sprintf("%v/%x/%d", e.v4, e.b, e.bits) }

func c38GenKey(rt *rapid.T, o c38GenOpts) string {
	kind := rapid.IntRange(0, 9).Draw(rt, "keyKind")
	switch {
	case kind <= 4:
		base := rapid.SampledFrom(c38V4Bases).Draw(rt, "b4")
		bits := rapid.SampledFrom(c38V4Bits).Draw(rt, "bits4")
		if rapid.IntRange(0, 5).Draw(rt, "anyBits") == 0 {
			bits = rapid.IntRange(0, 32).Draw(rt, "bits4r")
		}
		if o.mapped && rapid.IntRange(0, 3).Draw(rt, "asMapped") == 0 {
			return fmt.Sprintf("::ffff:%s/%d", base, 96+bits)
		}
		return fmt.Sprintf("%s/%d", base, bits)
	default:
		base := rapid.SampledFrom(c38V6Bases).Draw(rt, "b6")
		bits := rapid.SampledFrom(c38V6Bits).Draw(rt, "bits6")
		if rapid.IntRange(0, 5).Draw(rt, "anyBits") == 0 {
			bits = rapid.IntRange(0, 128).Draw(rt, "bits6r")
		}
		return fmt.Sprintf("%s/%d", base, bits)
	}
}

var c38BadKeys = []string{"192.168.0.0", "10.0.0.0/33", "fd00::/129", "10.0.0/8", "abc/8", "10.0.0.0/-1", "fe80::1%eth0/64", "/8", "10.0.0.0/", "10.0.0.0/08", "10.0.0.0/8/8", " 10.0.0.0/8"}
var c38BadVals = []any{1, 0, "abc", nil, []any{true}, 1.5, "", map[string]any{"a": true}, "maybe"}

func c38EncVal(rt *rapid.T, v bool) any {
	switch rapid.IntRange(0, 5).Draw(rt, "enc") {
	case 0:
		if v {
			return "y"
		}
		return "n"
	case 1:
		if v {
			return "yes"
		}
		return "no"
	}
	return v
}

// c38GenMap draws an allow-list map. Families get a value policy (uniform allow, uniform deny,
// mixed) so that valid, refused and nested configurations are all frequent.
func c38GenMap(rt *rapid.T, o c38GenOpts, maxN int) map[string]any {
	m := map[string]any{}
	seen := map[string]bool{}
	// mapped spellings only in every fifth map, so that most configurations stay outside that class
	o.mapped = o.mapped && rapid.IntRange(0, 4).Draw(rt, "mapAllowsMapped") == 0
	pol4 := rapid.IntRange(0, 2).Draw(rt, "pol4")
	pol6 := rapid.IntRange(0, 2).Draw(rt, "pol6")
	n := rapid.IntRange(0, maxN).Draw(rt, "n")
	for i := 0; i < n; i++ {
		k := c38GenKey(rt, o)
		e, _, ok := c38ParseKey(k)
		if !ok {
			rt.Fatalf("harness: generated key %q does not parse", k)
		}
		if seen[c38NormKey(e)] {
			continue // two spellings of one prefix with possibly different values: order dependent, not generated
		}
		seen[c38NormKey(e)] = true
		pol := pol6
		if e.v4 {
			pol = pol4
		}
		var v bool
		switch pol {
		case 0:
			v = true
		case 1:
			v = false
		default:
			v = rapid.Bool().Draw(rt, "v")
		}
		m[k] = c38EncVal(rt, v)
	}
	// explicit defaults
	if rapid.IntRange(0, 2).Draw(rt, "def4") == 0 {
		k := "0.0.0.0/0"
		if e, _, _ := c38ParseKey(k); !seen[c38NormKey(e)] {
			m[k] = c38EncVal(rt, rapid.Bool().Draw(rt, "d4"))
			seen[c38NormKey(e)] = true
		}
	}
	if rapid.IntRange(0, 2).Draw(rt, "def6") == 0 {
		k := "::/0"
		if e, _, _ := c38ParseKey(k); !seen[c38NormKey(e)] {
			m[k] = c38EncVal(rt, rapid.Bool().Draw(rt, "d6"))
			seen[c38NormKey(e)] = true
		}
	}
	if o.malformed {
		switch rapid.IntRange(0, 19).Draw(rt, "bad") {
		case 0:
			m[rapid.SampledFrom(c38BadKeys).Draw(rt, "badKey")] = true
		case 1:
			k := c38GenKey(rt, c38GenOpts{})
			if e, _, _ := c38ParseKey(k); !seen[c38NormKey(e)] {
				m[k] = c38BadVals[rapid.IntRange(0, len(c38BadVals)-1).Draw(rt, "badVal")]
			}
		case 2:
			k := c38GenKey(rt, c38GenOpts{})
			if e, _, _ := c38ParseKey(k); !seen[c38NormKey(e)] {
				m[k] = rapid.SampledFrom([]string{"true", "false", "True", "off", "Y", "NO"}).Draw(rt, "strBool")
			}
		}
	}
	return m
}

func c38LastAddr(e c38Ent) []byte {
	out := append([]byte{}, e.b...)
	for i := e.bits; i < len(out)*8; i++ {
		out[i/8] |= 0x80 >> (i % 8)
	}
	return out
}

func c38AddrOf(b []byte) netip.Addr {
	if len(b) == 4 {
		return netip.AddrFrom4([4]byte(b))
	}
	return netip.AddrFrom16([16]byte(b))
}

func c38Step(b []byte, d int) []byte {
	out := append([]byte{}, b...)
	for i := len(out) - 1; i >= 0; i-- {
		if d > 0 {
			out[i]++
			if out[i] != 0 {
				break
			}
		} else {
			out[i]--
			if out[i] != 0xff {
				break
			}
		}
	}
	return out
}

// c38GenQuery draws a queried (unmapped) address, biased to the edges of the configured prefixes.
func c38GenQuery(rt *rapid.T, refs ...*c38Ref) netip.Addr {
	var ents []c38Ent
	for _, r := range refs {
		if r != nil {
			ents = append(ents, r.ents...)
		}
	}
	if len(ents) > 0 && rapid.IntRange(0, 4).Draw(rt, "qEdge") > 0 {
		e := ents[rapid.IntRange(0, len(ents)-1).Draw(rt, "qEnt")]
		var b []byte
		switch rapid.IntRange(0, 4).Draw(rt, "qPos") {
		case 0:
			b = e.b
		case 1:
			b = c38LastAddr(e)
		case 2:
			b = c38Step(e.b, -1)
		case 3:
			b = c38Step(c38LastAddr(e), +1)
		default: // somewhere inside
			b = c38LastAddr(e)
			r := rapid.SliceOfN(rapid.Byte(), len(b), len(b)).Draw(rt, "qRnd")
			for i := e.bits; i < len(b)*8; i++ {
				if r[i/8]&(0x80>>(i%8)) == 0 {
					b[i/8] &^= 0x80 >> (i % 8)
				}
			}
		}
		a := c38AddrOf(b)
		if a.Is4In6() {
			a = a.Unmap() // callers only ever pass unmapped addresses
		}
		return a
	}
	if rapid.Bool().Draw(rt, "q4") {
		a := netip.MustParseAddr(rapid.SampledFrom(c38V4Bases).Draw(rt, "qb4"))
		return a
	}
	return netip.MustParseAddr(rapid.SampledFrom(c38V6Bases).Draw(rt, "qb6"))
}

func c38Show(m map[string]any) string {
	ks := make([]string, 0, len(m))
	for k := range m {
		ks = append(ks, k)
	}
	sort.Strings(ks)
	var sb strings.Builder
	sb.WriteString("{")
	for i, k := range ks {
		if i > 0 {
			sb.WriteString(", ")
		}
		switch v := m[k].(type) {
		case map[string]any:
			fmt.Fprintf(&sb, "%q: %s", k, c38Show(v))
		case string:
			fmt.Fprintf(&sb, "%q: %q", k, v)
		default:
			fmt.Fprintf(&sb, "%q: %v", k, v)
		}
	}
	sb.WriteString("}")
	return sb.String()
}

func c38Conf(settings map[string]any) *config.C {
	c := config.NewC(test.NewLogger())
	for k, v := range settings {
		c.Settings[k] = v
	}
	return c
}

// excluded reports (and counts) a case of the recorded finding class while it is listed as open.
func c38Excluded(hasMapped bool) bool {
	if hasMapped && vk.KnownOpen("C38", c38Key) {
		vk.Excluded("C38", c38Key)
		return true
	}
	return false
}

// ---- properties ------------------------------------------------------------------------------

func TestC38_AllowList(t *testing.T) {
	vk.Check(t, 40000, func(rt *rapid.T) {
		m := c38GenMap(rt, c38GenOpts{mapped: true, malformed: true}, 7)
		ref, refuse, unsure, hasMapped := c38Build(m, false)
		desc := c38Show(m)
		if c38Excluded(hasMapped) {
			return
		}
		al, err := newAllowListFromConfig(c38Conf(map[string]any{"allowlist": m}), "allowlist", nil)
		lb := []string{"allowlist"}
		if hasMapped {
			lb = append(lb, "mapped-key")
		}
		switch {
		case refuse:
			lb = append(lb, "refused")
			if err == nil {
				rt.Fatalf("allow list %s must be refused (malformed entry, or allow and deny mixed in a family without a default) but was accepted", desc)
			}
			vk.Case("C38", "al/"+desc, ref.nested() || hasMapped, lb...)
			return
		case unsure:
			lb = append(lb, "string-bool(not asserted)")
			if err != nil {
				vk.Case("C38", "al/"+desc, false, lb...)
				return
			}
		default:
			if err != nil {
				rt.Fatalf("allow list %s is well formed but was refused: %v", desc, err)
			}
		}
		if al == nil {
			rt.Fatalf("allow list %s: nil list without error", desc)
		}
		for q := 0; q < 12; q++ {
			a := c38GenQuery(rt, ref)
			if got, want := al.Allow(a), ref.allow(a); got != want {
				rt.Fatalf("allow list %s: Allow(%v) = %v, longest-prefix reference says %v", desc, a, got, want)
			}
		}
		if ref.nested() {
			lb = append(lb, "nested")
		}
		if len(ref.ents) == 0 {
			lb = append(lb, "empty")
		}
		vk.Case("C38", "al/"+desc, ref.nested() || hasMapped, lb...)
		if (ref.nested() || hasMapped) && vk.WantSample("C38") {
			vk.Sample("C38", map[string]any{"allowlist": desc})
		}
	})
}

func TestC38_MissingAndWrongType(t *testing.T) {
	defer vk.Flush()
	// key absent: no list, everything allowed
	al, err := newAllowListFromConfig(c38Conf(nil), "allowlist", nil)
	if err != nil || al != nil || !al.Allow(netip.MustParseAddr("10.0.0.1")) {
		t.Fatalf("absent allow list: %v %v", al, err)
	}
	for _, v := range []any{"10.0.0.0/8", []any{"10.0.0.0/8"}, true, 5} {
		if _, err := newAllowListFromConfig(c38Conf(map[string]any{"allowlist": v}), "allowlist", nil); err == nil {
			t.Fatalf("allow list of type %T accepted", v)
		}
		vk.Case("C38", fmt.Sprintf("type/%T", v), false, "wrong-type")
	}
}

func TestC38_RemoteAllowList(t *testing.T) {
	vk.Check(t, 15000, func(rt *rapid.T) {
		settings := map[string]any{}
		lhs := map[string]any{}
		var global *c38Ref
		hasMapped := false
		refuse := false
		unsure := false
		desc := ""
		if rapid.IntRange(0, 3).Draw(rt, "hasGlobal") > 0 {
			m := c38GenMap(rt, c38GenOpts{mapped: true, malformed: true}, 4)
			var hm bool
			global, refuse, unsure, hm = c38Build(m, false)
			hasMapped = hasMapped || hm
			lhs["remote_allow_list"] = m
			desc += "remote_allow_list=" + c38Show(m)
		}
		type rng struct {
			e   c38Ent
			ref *c38Ref
		}
		var ranges []rng
		if rapid.IntRange(0, 3).Draw(rt, "hasRanges") > 0 {
			rm := map[string]any{}
			seen := map[string]bool{}
			n := rapid.IntRange(0, 3).Draw(rt, "nRanges")
			for i := 0; i < n; i++ {
				k := c38GenKey(rt, c38GenOpts{mapped: rapid.IntRange(0, 4).Draw(rt, "rangeAllowsMapped") == 0})
				e, mapped, _ := c38ParseKey(k)
				if seen[c38NormKey(e)] {
					continue
				}
				seen[c38NormKey(e)] = true
				hasMapped = hasMapped || mapped
				inner := c38GenMap(rt, c38GenOpts{mapped: true, malformed: true}, 3)
				iref, irefuse, iunsure, ihm := c38Build(inner, false)
				refuse = refuse || irefuse
				unsure = unsure || iunsure
				hasMapped = hasMapped || ihm
				rm[k] = inner
				ranges = append(ranges, rng{e, iref})
			}
			if rapid.IntRange(0, 24).Draw(rt, "badRange") == 0 {
				rm[rapid.SampledFrom(c38BadKeys).Draw(rt, "badRangeKey")] = map[string]any{"0.0.0.0/0": true}
				refuse = true
			}
			if rapid.IntRange(0, 24).Draw(rt, "badRangeVal") == 0 {
				rm["10.99.0.0/16"] = true // not a nested allow list
				refuse = true
			}
			lhs["remote_allow_ranges"] = rm
			desc += " remote_allow_ranges=" + c38Show(rm)
		}
		settings["lighthouse"] = lhs
		if c38Excluded(hasMapped) {
			return
		}
		ral, err := NewRemoteAllowListFromConfig(c38Conf(settings), "lighthouse.remote_allow_list", "lighthouse.remote_allow_ranges")
		lb := []string{"remote"}
		if len(ranges) > 0 {
			lb = append(lb, "ranges")
		}
		if hasMapped {
			lb = append(lb, "mapped-key")
		}
		nt := len(ranges) > 0 || hasMapped
		switch {
		case refuse:
			if err == nil {
				rt.Fatalf("%s must be refused but was accepted", desc)
			}
			vk.Case("C38", "ral/"+desc, nt, append(lb, "refused")...)
			return
		case unsure:
			if err != nil {
				vk.Case("C38", "ral/"+desc, false, append(lb, "string-bool(not asserted)")...)
				return
			}
		default:
			if err != nil {
				rt.Fatalf("%s is well formed but was refused: %v", desc, err)
			}
		}
		// the range list that applies to an overlay address: the most specific containing range
		inside := func(vpn netip.Addr) *c38Ref {
			v4, b := c38Bytes(vpn)
			best := -1
			var r *c38Ref
			for _, x := range ranges {
				if x.e.v4 == v4 && x.e.bits > best && c38Match(b, x.e.b, x.e.bits) {
					best, r = x.e.bits, x.ref
				}
			}
			return r
		}
		rangeAsRef := &c38Ref{}
		for _, x := range ranges {
			rangeAsRef.ents = append(rangeAsRef.ents, x.e)
		}
		var irefs []*c38Ref
		for _, x := range ranges {
			irefs = append(irefs, x.ref)
		}
		for q := 0; q < 10; q++ {
			vpn := c38GenQuery(rt, rangeAsRef)
			udp := c38GenQuery(rt, append(irefs, global)...)
			want := inside(vpn).allow(udp) && global.allow(udp)
			if got := ral.Allow(vpn, udp); got != want {
				rt.Fatalf("%s: Allow(vpn=%v, udp=%v) = %v, reference (range list AND global list) says %v", desc, vpn, udp, got, want)
			}
			if got, want := ral.AllowUnknownVpnAddr(udp), global.allow(udp); got != want {
				rt.Fatalf("%s: AllowUnknownVpnAddr(%v) = %v, global list says %v", desc, udp, got, want)
			}
			vpn2 := c38GenQuery(rt, rangeAsRef)
			vpns := []netip.Addr{vpn, vpn2}
			if rapid.IntRange(0, 3).Draw(rt, "oneVpn") == 0 {
				vpns = vpns[:1]
			}
			wantAll := global.allow(udp)
			for _, v := range vpns {
				wantAll = wantAll && inside(v).allow(udp)
			}
			if got := ral.AllowAll(vpns, udp); got != wantAll {
				rt.Fatalf("%s: AllowAll(vpn=%v, udp=%v) = %v, reference says %v", desc, vpns, udp, got, wantAll)
			}
		}
		vk.Case("C38", "ral/"+desc, nt, lb...)
		if nt && vk.WantSample("C38") {
			vk.Sample("C38", map[string]any{"remote": desc})
		}
	})
}

// interface-name rules: structured patterns whose match set is computable without a regex engine
type c38Pat struct {
	kind int // 0 literal, 1 prefix.*, 2 .*suffix, 3 .*, 4 prefix[0-9]+
	s    string
}

func (p c38Pat) src() string {
	switch p.kind {
	case 0:
		return p.s
	case 1:
		return p.s + ".*"
	case 2:
		return ".*" + p.s
	case 3:
		return ".*"
	}
	return p.s + "[0-9]+"
}

func (p c38Pat) match(n string) bool {
	switch p.kind {
	case 0:
		return n == p.s
	case 1:
		return strings.HasPrefix(n, p.s)
	case 2:
		return strings.HasSuffix(n, p.s)
	case 3:
		return true
	}
	if !strings.HasPrefix(n, p.s) || len(n) == len(p.s) {
		return false
	}
	for _, ch := range n[len(p.s):] {
		if ch < '0' || ch > '9' {
			return false
		}
	}
	return true
}

var c38Names = []string{"eth0", "eth1", "eth10", "eth", "docker0", "docker", "br-12ab", "tun0", "tun", "wlan0", "lo", "xeth0", "eth0x", "", "veth0", "en0"}
var c38Stems = []string{"eth", "eth0", "docker", "br-", "tun", "wlan0", "lo", "0", "en"}

func TestC38_LocalAllowList(t *testing.T) {
	vk.Check(t, 15000, func(rt *rapid.T) {
		m := c38GenMap(rt, c38GenOpts{mapped: true}, 3)
		ref, refuse, unsure, hasMapped := c38Build(m, true)
		var pats []c38Pat
		ruleVal := true
		mixed := false
		lb := []string{"local"}
		if rapid.IntRange(0, 4).Draw(rt, "hasIfaces") > 0 {
			rules := map[string]any{}
			n := rapid.IntRange(0, 4).Draw(rt, "nRules")
			ruleVal = rapid.Bool().Draw(rt, "ruleVal")
			flip := rapid.IntRange(0, 5).Draw(rt, "mixRules") == 0
			first := true
			for i := 0; i < n; i++ {
				p := c38Pat{kind: rapid.IntRange(0, 4).Draw(rt, "patKind"), s: rapid.SampledFrom(c38Stems).Draw(rt, "stem")}
				if _, dup := rules[p.src()]; dup {
					continue
				}
				v := ruleVal
				if flip && !first && rapid.Bool().Draw(rt, "flipThis") {
					v = !ruleVal
					mixed = true
				}
				first = false
				rules[p.src()] = c38EncVal(rt, v)
				pats = append(pats, p)
			}
			switch rapid.IntRange(0, 29).Draw(rt, "badRule") {
			case 0:
				rules["eth("] = ruleVal // not a regular expression
				refuse = true
			case 1:
				rules["eth7"] = "maybe"
				refuse = true
			}
			m["interfaces"] = rules
			lb = append(lb, "interfaces")
		} else if rapid.IntRange(0, 19).Draw(rt, "ifacesWrongType") == 0 {
			m["interfaces"] = []any{"eth0"}
			refuse = true
		}
		if mixed {
			refuse = true
			lb = append(lb, "mixed-name-rules")
		}
		desc := c38Show(m)
		if c38Excluded(hasMapped) {
			return
		}
		lal, err := NewLocalAllowListFromConfig(c38Conf(map[string]any{"lighthouse": map[string]any{"local_allow_list": m}}), "lighthouse.local_allow_list")
		switch {
		case refuse:
			if err == nil {
				rt.Fatalf("local allow list %s must be refused but was accepted", desc)
			}
			vk.Case("C38", "lal/"+desc, len(pats) > 1, append(lb, "refused")...)
			return
		case unsure:
			if err != nil {
				return
			}
		default:
			if err != nil {
				rt.Fatalf("local allow list %s is well formed but was refused: %v", desc, err)
			}
		}
		for q := 0; q < 8; q++ {
			name := rapid.SampledFrom(c38Names).Draw(rt, "name")
			want := true
			if len(pats) > 0 {
				want = !ruleVal
				for _, p := range pats {
					if p.match(name) {
						want = ruleVal
					}
				}
			}
			if got := lal.AllowName(name); got != want {
				rt.Fatalf("local allow list %s: AllowName(%q) = %v, reference says %v", desc, name, got, want)
			}
			a := c38GenQuery(rt, ref)
			if got, want := lal.Allow(a), ref.allow(a); got != want {
				rt.Fatalf("local allow list %s: Allow(%v) = %v, reference says %v", desc, a, got, want)
			}
		}
		vk.Case("C38", "lal/"+desc, ref.nested() || hasMapped || len(pats) > 1, lb...)
	})
}

// TestC38_Probe_v4_mapped_prefix: the minimal inputs of the recorded finding.
func TestC38_Probe_v4_mapped_prefix(t *testing.T) {
	defer vk.Flush()
	type probe struct {
		m     map[string]any
		q     string
		want  bool
		about string
	}
	reproduced := ""
	for _, p := range []probe{
		{map[string]any{"::ffff:10.0.0.0/104": false}, "10.1.2.3", false, "a lone mapped deny rule must deny inside the prefix"},
		{map[string]any{"::ffff:10.0.0.0/104": true}, "10.1.2.3", true, "a lone mapped allow rule must allow inside the prefix"},
		{map[string]any{"0.0.0.0/0": true, "::ffff:192.168.0.0/112": false}, "192.168.3.4", false, "mapped deny below an explicit default"},
	} {
		al, err := newAllowListFromConfig(c38Conf(map[string]any{"allowlist": p.m}), "allowlist", nil)
		vk.Case("C38", "probe/"+c38Show(p.m), true, "probe")
		if err != nil {
			continue // refusing the spelling outright would also be safe
		}
		if got := al.Allow(netip.MustParseAddr(p.q)); got != p.want {
			reproduced = fmt.Sprintf("%s: %s -> Allow(%s) = %v, want %v", p.about, c38Show(p.m), p.q, got, p.want)
			break
		}
	}
	if reproduced == "" {
		// same defect class in the keys of remote_allow_ranges
		c := c38Conf(map[string]any{"lighthouse": map[string]any{"remote_allow_ranges": map[string]any{
			"::ffff:10.128.0.0/112": map[string]any{"192.168.0.0/16": true}}}})
		ral, err := NewRemoteAllowListFromConfig(c, "lighthouse.remote_allow_list", "lighthouse.remote_allow_ranges")
		if err == nil && ral.Allow(netip.MustParseAddr("10.128.0.5"), netip.MustParseAddr("8.8.8.8")) {
			reproduced = "remote_allow_ranges key ::ffff:10.128.0.0/112 is dropped: peers in 10.128.0.0/16 are not restricted to 192.168.0.0/16"
		}
	}
	if reproduced == "" {
		return
	}
	if vk.KnownOpen("C38", c38Key) {
		vk.ReportKnown("C38", c38Key)
		return
	}
	t.Fatalf("IPv4-mapped prefix not treated as its IPv4 equivalent: %s", reproduced)
}
