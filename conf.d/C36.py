# C36 (list level) - unusable underlay addresses are never used (DESIGN.md section 4).
# The wire-level multi-node part of C36 is a separate part built by the netsim harness.
CHECK = {
    "parts": [
        {"pkg": ".", "files": ["root/c36_test.go", "root/c38_test.go"], "run": "^TestC36",
         "quick": {"scale": 1, "shards": 1, "timeout": 600},
         "thorough": {"scale": 60, "shards": 8, "timeout": 1800}},
        # wire level: real nodes in a synctest bubble (engine E-netsim)
        {"pkg": ".", "tags": "e2e_testing", "hide": ["interface_emit_test.go"],
         "files": ["netsim/ns_core_test.go", "netsim/ns_world_test.go", "netsim/ns_history_test.go", "netsim/c36n_test.go"],
         "run": "^TestC36_WireLevel", "env": {"GOMAXPROCS": "1", "GODEBUG": "asyncpreemptoff=1"},
         "quick": {"scale": 1, "shards": 4, "timeout": 900},
         "thorough": {"scale": 4, "shards": 12, "timeout": 2400}},
    ],
    "rule": "wire level: a lighthouse and 3-4 hosts that learn each other only through it, each host with a generated "
            "remote_allow_list (single-host denies with inferred default, explicit default with a denied sub-range, denied /24 with "
            "specific allows), punchy on; 15-60 step histories; every handshake, data and punch datagram a node emits must go to an "
            "address its list allows (independent longest-prefix evaluation) and outside its own overlay networks; non-trivial there: "
            "a world with a denied peer address and data on the wire. list level: per case a LightHouse (lighthouse, or client with one configured lighthouse) is built from a generated config: "
            "1-3 own overlay networks, valid remote_allow_list and remote_allow_ranges with nested lists, static hosts whose "
            "addresses are partly unusable, calculated remotes; then 1..25 steps: lighthouse answers / host updates / punch "
            "notifications with 0-30 addresses drawn from a pool of in-own-network, denied, allowed and IPv4-mapped "
            "addresses, tunnel-up and roaming events (admitted by the packet path's guards), wrong-responder blocks, "
            "completed handshakes, calculated remotes, changed hostname results, tunnel closes. After every step every "
            "RemoteList.CopyAddrs entry and every UDP destination written by the real punch worker must be outside the own "
            "networks, allowed by the C38 reference evaluator for the peer and not blocked; per-source caps (10 per family) "
            "and the presence of the usable static addresses are checked. Non-trivial: a peer was offered >=1 unusable "
            "address and has >=1 usable candidate (or a punch request with an unusable address that led to >=1 punch); "
            "distinct by config + history.",
    "assumptions": [
        "allowed-for-the-peer is evaluated against the overlay address the information was filed under (for multi-address peers: at least one of the list's addresses), the weakest reading all code paths implement",
        "learned addresses enter only through the packet path, which has already dropped sources inside the own networks (outside.go) and sources denied by AllowAll (handshake / roaming guards)",
        "the cap of ten is asserted per source and address family (10 v4 + 10 v6 + relays); a source filling both families stores up to 20 - labelled, not asserted",
        "calculated remotes are never computed for static hosts (handshake manager call site)",
        "IPv4-mapped allow-list keys are not generated here (C38 finding v4-mapped-prefix)",
    ],
    "engine": "E-model + E-netsim", "technique": "rapid histories inside a synctest bubble, invariant checked with an independent allow-list evaluator",
}
