# C45 - SSH debug file path sandbox (see DESIGN.md section 4)
CHECK = {
    "pkg": ".", "files": ["root/c45_test.go"], "run": "^TestC45",
    "quick": {"scale": 1, "shards": 1, "timeout": 600},
    "thorough": {"scale": 8, "shards": 8, "timeout": 1800, "fuzz": [{"target": "FuzzC45", "seconds": 60}]},
    "rule": "rapid pairs (sandbox dir, file path): sandboxes absolute / absolute with dot segments / relative / relative "
            "made of '..' / '.' / '/', with repeated and trailing separators; files from a segment grammar {names incl. "
            "'..a', '...', unicode, 255- and 1024-byte names, '.', '..', ''} joined by 1-3 separators (relative and "
            "absolute), the sandbox path plus hostile suffixes, similar-prefix siblings (box vs boxes, box2, 'box.', "
            "'bo') reached absolutely or via '..', climb-out-and-return paths. Oracle: independent lexical stack "
            "resolver; accepted => strictly inside and the returned path denotes the same location; not strictly "
            "inside => refused. Non-trivial: the file path contains a '..' segment or a similar-prefix sibling of the "
            "sandbox's last name; distinct by (sandbox, file) strings.",
    "assumptions": ["unix path semantics ('/' separator), as on the platform under test",
                    "relative file paths are relative to the sandbox directory (documented by the commands)",
                    "purely lexical: symlinks are out of scope of the statement"],
    "engine": "E-pure + E-fuzz",
    "technique": "rapid grammar-based generation + native fuzzing against an independent lexical path resolver",
}
