# C19 - tracked flows are revalidated after a rule reload (see DESIGN.md section 4)
CHECK = {
    "pkg": ".", "files": ["root/fwref_test.go", "root/c19_test.go"], "run": "^TestC19",
    "quick": {"scale": 1, "shards": 1, "timeout": 600},
    "thorough": {"scale": 6, "shards": 8, "timeout": 2400},
    "rule": "each case is a history of 4-30 steps (in a synctest bubble, so nothing times out) against a real Interface{pki, firewall}: "
            "packets of 1-4 flows (+ a neighbouring tuple) in both directions, interleaved with Interface.reloadFirewall after "
            "config.ReloadConfigString of generated YAML: identical text, non-rule settings only (conntrack timeouts, "
            "inbound/outbound_action), new random rule sets (optionally with allow-all in/out rules), reverts to any earlier config, "
            "single-rule edits, a refused (invalid) config, a re-issued certificate with other unsafe networks, default_local_cidr_any "
            "toggles; rulesVersion pre-set to 65532..65535 in a third of the histories so the uint16 wrap is crossed. Oracle = the "
            "statement: a packet its own direction does not allow passes only if its tuple is tracked and the original direction is "
            "allowed by the current rules (flat evaluator); a flow refused for that reason stays forgotten; a flow last honoured under "
            "rules that have not changed since must still be honoured. Non-trivial: a flow probed under a rule set that disagrees with "
            "the one it was established under. Distinct by full history.",
    "assumptions": ["survival of a flow across a reload that changed the rules but still allows it is not asserted (statement silent)",
                    "revalidation is lazy: a flow never probed while disallowed may survive a revert",
                    "the 65 536-reload wrap is reached by setting Firewall.rulesVersion in-package, not by 65 536 reloads"],
    "engine": "E-model", "technique": "rapid history against a reference flow table + flat rule evaluator",
}
