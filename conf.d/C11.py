# C11 - replay window (see DESIGN.md section 4)
CHECK = {
    "pkg": ".", "files": ["root/c11_test.go"], "run": "^TestC11",
    "quick": {"scale": 1, "shards": 1, "timeout": 600},
    "thorough": {"scale": 8, "shards": 8, "timeout": 1800},
    "rule": "rapid sequences (<= 80 ops, Check-only probes mixed in) of counters drawn relative to the model's "
            "highest accepted counter (next, small steps, window edges max-L(+-1), word-boundary jumps +-63/64/65, "
            "jumps of L-1/L/L+1/2L/3L, duplicates of accepted counters, 0, values near 2^64) for window lengths "
            "1..8192, from a fresh window, a window seeded 1..k as after a handshake, a steady-state window and a "
            "window at the top of the counter space; the production constructor newConnectionStateFromResult is "
            "driven as well; small windows are enumerated exhaustively. Oracle: set of accepted counters + max. "
            "Non-trivial: the sequence contains an accepted forward jump >= 64 and afterwards an in-window backfill "
            "or duplicate; distinct by (L, op list).",
    "assumptions": ["counter 0 does not exist on the wire (NewBits pre-marks it), so the model never accepts 0",
                    "Bits is used under ConnectionState.decryptLock; sequential histories only (interleavings are C12)"],
    "engine": "E-model",
    "technique": "rapid state-machine style sequences against a set-based reference model + exhaustive DFS enumeration for L<=8(16)",
}
