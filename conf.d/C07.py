# C07 - a rejected handshake message never wedges the handshake (see DESIGN.md section 4)
CHECK = {
    "pkg": "handshake", "files": ["handshake/hsgen_test.go", "handshake/c07_test.go", "handshake/c07_fuzz_test.go"], "run": "^TestC07",
    "quick": {"scale": 1, "shards": 1, "timeout": 300},
    "thorough": {"scale": 20, "shards": 8, "timeout": 900, "fuzz": [{"target": "FuzzC07", "seconds": 60}]},
    "rule": "per case a real IX session (curve x cipher x cert versions x target machine initiator/responder) whose target "
            "receives 1..5 pre-messages derived from the genuine message (every truncation length, edge truncations, bit "
            "flips in header/E/S/payload, E replaced by low-order or invalid points or by a fresh valid point, stage-1/stage-2 "
            "messages of another session, the wrong stage of the same session, subtype/counter/index substitutions, trailing "
            "bytes, tiny packets, forged stage-2 with an invalid static key, real stage-2 answers of untrusted/expired/"
            "blocklisted/key-mismatch responders) and then the genuine message; a twin session with the same configuration "
            "receives the genuine message only. Non-trivial: a pre-message that was rejected after noise consumed at least "
            "the ephemeral (noise length >= DHLEN, right subtype); distinct by (configuration, pre-message classes and "
            "lengths). The truncation-length sweep (all prefix lengths x 2 curves x 2 ciphers x both targets) is exhaustive.",
    "assumptions": [
        "a pre-message the Machine accepts (unauthenticated IX stage 1, header bytes outside the Noise transcript) is not a rejection; the case ends there",
        "the twin is a separate session with the same credentials and configuration (a Machine cannot be cloned); 'exactly as if' = completes, same peer certificate, keys pair with the real peer, indexes mirrored",
    ],
    "engine": "E-pure + E-fuzz",
    "technique": "rapid differential (session with adversarial pre-messages vs twin) + exhaustive truncation sweep + native fuzz target whose input is a mutation recipe applied to the genuine message",
}
