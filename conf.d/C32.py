CHECK = {
    "pkg": ".", "tags": "e2e_testing", "hide": ["interface_emit_test.go"],
    "files": ["netsim/ns_core_test.go", "netsim/ns_world_test.go", "netsim/ns_history_test.go", "netsim/c32_test.go"],
    "run": "^TestC32", "env": {"GOMAXPROCS": "1", "GODEBUG": "asyncpreemptoff=1"},
    "quick": {"scale": 1, "shards": 4, "timeout": 900},
    "thorough": {"scale": 5, "shards": 12, "timeout": 2400},
    "engine": "E-netsim",
    "technique": "rapid-generated retry/queue scenarios on real nodes under virtual time (synctest); wire-timing and queue-content oracle with an independent rule evaluation",
    "rule": "Generated: handshakes.try_interval in {10 ms..2 s}, retries 1..12, the attempt at which the network first lets a first message through (beyond retries = never), 0..150 tun packets (tcp/udp, 7 destination ports) queued while pending, 0-3 outbound rules (proto any/tcp/udp, port any/single/range). Virtual time is stepped at interval/4. Checked: gaps between first-message transmissions within [j*interval, j*interval+2 ticks]; never answered: exactly `retries` transmissions, pending entry and index gone, nothing at the peer tun; answered at attempt k: exactly k transmissions and the peer tun holds exactly the first min(n,100) queued packets the rules allow, once each, in order; no data packet before completion. Non-trivial: n > 100, or part of the queue filtered, or completion at attempt >= 3, or give-up; distinct by parameter tuple.",
    "assumptions": ["timer wheel tolerance of two ticks (tick = try_interval) as stated by C33"],
}
