# C18 - tracked flows are per-tuple and expire when idle (see DESIGN.md section 4)
CHECK = {
    "pkg": ".", "files": ["root/fwref_test.go", "root/c18_test.go"], "run": "^TestC18",
    "quick": {"scale": 1, "shards": 1, "timeout": 600},
    "thorough": {"scale": 20, "shards": 8, "timeout": 1800},
    "rule": "each case is a history of 4-30 steps inside a testing/synctest bubble (virtual clock): packets of 1-3 base flows and "
            "near-duplicate tuples (one port, protocol, fragment flag or address pair changed) over 1-2 peers in both directions; "
            "virtual sleeps around each generated timeout (T-1ns, T, T+1ns, T+tick, T+2tick, T+2tick+1ns, T+3tick, 10T, T/2, 1ms); "
            "bursts of 1-200 unrelated brand-new flows (the churn the timer wheel depends on); tcp/udp/default timeouts drawn "
            "independently from 1s..12m; rule sets in-only / out-only / random plus a churn rule. Oracle: reference conntrack "
            "(tuple -> virtual time last honoured); a packet no rule allows may pass only if its tuple is established and idle "
            "<= timeout(proto); verdicts in (T, T+2 ticks] are don't-care (timer wheel rounding); an observed expiry removes the flow. "
            "Non-trivial: history containing a packet no rule allows that arrives after an idle gap > T + 2 ticks. Distinct by full history.",
    "assumptions": ["only-if reading of the statement: a dropped packet of a live flow is labelled, not failed",
                    "routine-local ConntrackCache not used (nil), as in the single-routine configuration"],
    "engine": "E-model", "technique": "rapid history in a synctest bubble against a reference conntrack",
}
