# C48 - calculated remotes (see DESIGN.md section 4)
CHECK = {
    "pkg": ".", "files": ["root/c48_test.go"], "run": "^TestC48",
    "quick": {"scale": 1, "shards": 1, "timeout": 600},
    "thorough": {"scale": 10, "shards": 8, "timeout": 1800},
    "rule": "rapid (a) single entries: IPv4/IPv6 mask address (random / all-ones / zero / 0xaa pattern) with every mask "
            "length 0..32 / 0..128 and host bits set, any port 0..65535, applied to arbitrary overlay addresses through "
            "newCalculatedRemote + ApplyV4/ApplyV6, plus other-family masks and out-of-range ports that must be refused; "
            "(b) YAML configs with 1-3 ranges (host bits set, nested / sibling / other-family ranges, 0-8 entries each, "
            "ports as YAML ints and strings, optionally broken by a family mismatch or port out of range) loaded with "
            "NewCalculatedRemotesFromConfig and queried through LightHouse.addCalculatedRemotes with overlay addresses "
            "inside a range, one flipped prefix bit outside, random, and of the other family. Oracle: bit-by-bit splice "
            "on address bytes and bitwise range membership. Non-trivial: a mask length that is not a multiple of 8 takes "
            "part in a produced remote (or, for refused configs, every case); distinct by entry/overlay bytes or YAML+queries.",
    "assumptions": ["overlay addresses are never IPv4-mapped IPv6", "at most 8 entries per range (MaxRemotes=10 truncation is C37's business)",
                    "calculated addresses inside the node's own overlay network are dropped by the general remote filter (C36) and modelled so",
                    "with nested ranges it is not stated which range wins; any one containing range's complete entry list is accepted"],
    "engine": "E-pure",
    "technique": "rapid properties against a bitwise reference, end to end through the YAML loader and the lighthouse cache",
}
