# C01 - certificate acceptance equals the documented trust rule (see DESIGN.md section 4)
CHECK = {
    "pkg": "cert", "files": ["cert/certgen_test.go", "cert/c01_test.go"], "run": "^TestC01",
    "quick": {"scale": 1, "shards": 1, "timeout": 600},
    "thorough": {"scale": 5, "shards": 8, "timeout": 1800},
    "rule": "per case a trust universe of 1-4 CAs (v1/v2 x Curve25519/P-256, generated window, optional group / "
            "network / unsafe-network constraints) and one leaf drawn around the constraint lattice of its issuer "
            "(inside, equal, one bit shorter, sibling block, other family; window equal / inside / one second outside; "
            "extra group; other curve; wrong signing key; unknown, empty or foreign issuer; CA-flagged), issued through "
            "Sign when it accepts and otherwise by a harness signer that signs the to-be-signed bytes directly, "
            "presented as object / wire / PEM / handshake+Recombine encoding, low- or high-S; each leaf is evaluated "
            "under 4 environments (pool subset, blocklist from {leaf fp, twin fp, CA fp, unrelated}, time at the "
            "NotBefore/NotAfter seconds of leaf and CA +-1 s). Non-trivial: the independent predicate has exactly one "
            "false conjunct, or is true at a boundary second; for the cached relation: a sequence in which the "
            "verdict changes. Distinct by the full universe/leaf/environment description.",
    "assumptions": ["evaluation times are whole seconds (the encodings store Unix seconds)",
                    "a CA-flagged certificate presented as a peer is not excluded by the statement (nor by the code)"],
    "engine": "E-pure",
    "technique": "rapid generated trust universes against an independent reference predicate; cached vs full "
                 "verification compared over generated edit sequences",
}
