CHECK = {
    "pkg": ".", "tags": "e2e_testing", "hide": ["interface_emit_test.go"],
    "files": ["netsim/ns_core_test.go", "netsim/ns_world_test.go", "netsim/ns_history_test.go", "netsim/c14_test.go"],
    "run": "^TestC14", "env": {"GOMAXPROCS": "1", "GODEBUG": "asyncpreemptoff=1"},
    "quick": {"scale": 1, "shards": 4, "timeout": 900},
    "thorough": {"scale": 6, "shards": 12, "timeout": 2400},
    "engine": "E-netsim",
    "technique": "rapid-generated adversarial network histories over real nodes in a synctest bubble; metamorphic no-effect oracle on a full state digest",
    "rule": "Each case is a generated world (2-3 hosts, optional lighthouse and relay, v1/v2 certificates, optional second IPv6 overlay network) and a history of 15-60 steps (tun injections, in/out-of-order delivery, drop, duplicate, replay from real/foreign source, mutants: bit flips, truncation, extension, counter/index/type substitution, cross-packet splices, zeroed tag, advance virtual time, close). For every delivered packet that is a forgery or a copy of something the receiver already consumed, the receiver's state digest (tunnels, primaries, remotes, roaming, liveness flags, replay window, counters, relay state, pending handshakes, lighthouse cache) and tun output must be unchanged. Non-trivial: history with at least one mutant that parsed as a valid type/subtype and named an existing tunnel or relay index on its receiver; distinct by step list.",
    "assumptions": ["handshake-typed packets are judged by C05/C10 and recv_error (type 2) is the documented unauthenticated path; both are excluded from the no-effect oracle",
                    "AEAD is treated as ideal: the adversary manipulates bytes, it does not search key space"],
}
