CHECK = {
    "pkg": ".", "tags": "e2e_testing", "hide": ["interface_emit_test.go"],
    "files": ["netsim/ns_core_test.go", "netsim/ns_world_test.go", "netsim/ns_history_test.go", "netsim/c39_test.go"],
    "run": "^TestC15", "env": {"GOMAXPROCS": "1", "GODEBUG": "asyncpreemptoff=1"},
    "quick": {"scale": 1, "shards": 4, "timeout": 900},
    "thorough": {"scale": 3, "shards": 14, "timeout": 2400},
    "engine": "E-netsim",
    "technique": "rapid-generated relay histories in a synctest bubble with the relay's own keys used by the adversary to rewrite, swap and replay inner packets; wire-plaintext scan and exact tun-delivery accounting",
    "rule": "Same worlds and operations as C39 plus the 'relay-key holder' operation: using the relay's real tunnel keys the adversary sends any inner packet seen on the wire (genuine inner packet of the same or another pair, plain data/close/control packets, optionally bit-flipped) to a host under any relay index the relay holds. Checked: no datagram on the wire contains tun payload plaintext; the honest relay forwards inner bytes unchanged; every packet written to any tun is a byte-identical copy of a packet injected at a peer, addressed to an address certified for the receiving node, delivered at most once per injection; unauthentic/duplicate deliveries change no state (C14 oracle). Non-trivial: >=1 relayed tun delivery and >=1 relay-key-holder rewrite; distinct by step list.",
    "assumptions": ["AEAD is ideal: the adversary manipulates bytes and uses keys it legitimately holds (the relay's)", "a host that negotiates a relay to itself by playing both halves gets its own traffic reflected; both negotiating peers are the sender, so this is recorded, not judged"],
}
