# C29 - local tunnel indexes are unique and never zero (unit/model level part; see DESIGN.md section 4)
CHECK = {
    "pkg": ".", "files": ["root/c29_test.go"], "run": "^TestC29",
    "quick": {"scale": 1, "shards": 1, "timeout": 600},
    "thorough": {"scale": 8, "shards": 8, "timeout": 1500},
    "rule": "crypto/rand.Reader replaced per case: 4-byte reads (generateIndex) are answered from a rapid-drawn stream over "
            "{0..k}, k drawn from 3..6 (at most two zeros in a row), everything else passes through. Histories of 1..50 steps on "
            "one real node (HostMap + HandshakeManager + AddRelay with a real CA/CertState, peers played by handshake.Machine "
            "with remote indexes from 1..4): StartHandshake, timer ticks (stage-0 build through allocateIndex, retries, "
            "timeouts), genuine / wrong-host / replayed stage-2 replies, fresh and replayed stage-1 packets (generateIndex + "
            "CheckAndComplete), closeTunnel of any tunnel ever established (incl. stale second closes), recv_error, AddRelay via "
            "any tunnel ever established. Invariants after every step over before/after snapshots of HandshakeManager.indexes, "
            "Indexes, Relays, RemoteIndexes. Non-trivial: history in which the wrapper handed out at least one non-zero value that "
            "was already held in the namespace it was drawn for (forced collision branch); distinct by alphabet + operation log.",
    "assumptions": [
        "wall clock only feeds handshake payload timestamps / certificate validity; their order equals creation order",
        "only the main-hostmap side receives stale second deletes (closeTunnel callers race); pending-side deletes are "
        "serialised by HandshakeHostInfo.Lock and the re-verification in continueHandshake, so they are not generated",
    ],
    "engine": "E-model", "technique": "rapid histories over real handshake flows with a forced-collision rand.Reader; history invariants",
}
