# C47 - header encoding (see DESIGN.md section 4)
CHECK = {
    "pkg": "header", "files": ["header/c47_test.go"], "run": "^TestC47",
    "quick": {"scale": 1, "shards": 1, "timeout": 300},
    "thorough": {"scale": 10, "shards": 8, "timeout": 900, "fuzz": [{"target": "FuzzC47", "seconds": 45}]},
    "technique": "rapid round trip (encode, parse back) against the documented bit layout, differential of Parse against an independent decoder over byte strings and capacity-padded sub-slices, exhaustive type/subtype name table; native fuzzing of Parse in the thorough tier",
    "rule": "rapid draws of (version,type,subtype over 0..255, index/counter full range with edge values) encoded "
            "and parsed back against the documented bit layout; byte strings of length 0..64 parsed against an "
            "independent decode with a trailing-bytes metamorphic check; the 256x256 type/subtype table enumerated. "
            "Non-trivial: round trips with version,type < 16 (the 4-bit fields), every parse case, every valid table "
            "entry; distinct by field tuple / header bytes.",
    "assumptions": ["documented layout in header.go comment is the specification"],
}

