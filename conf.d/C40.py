# C40 - multipath routing buckets (see DESIGN.md section 4)
CHECK = {
    "pkg": "routing", "files": ["routing/c40_test.go"], "run": "^TestC40",
    "quick": {"scale": 1, "shards": 1, "timeout": 600},
    "thorough": {"scale": 12, "shards": 8, "timeout": 1800},
    "rule": "rapid gateway lists (1..16 gateways; weights all-ones / small / uniform over 1..2^31-1 / all near 2^31-1 / "
            "skewed mixes of tiny and huge / powers of two) and packets whose port pairs are random, well-known edge "
            "ports, or constructed (inverse of the documented mixer) to hash exactly onto a bucket bound, bound+-1, 0 or "
            "2^31-1; plus full sweeps of all 65536 remote (or local) ports for a drawn port. Oracle: exact big-integer "
            "proportionality (|share - w/sum*2^31| <= 1), bounds never decrease, last bound 2^31-1, BalancePacket picks "
            "the share containing the hash with ok=true, and the choice is unchanged under address/protocol/fragment "
            "changes and repetition. Non-trivial: >= 2 gateways with unequal weights; distinct by weight vector.",
    "assumptions": ["weights are 1..2^31-1 each (enforced by overlay/route.go)", "64-bit int"],
    "engine": "E-pure",
    "technique": "rapid properties with an exact rational reference and a metamorphic relation over unrelated packet fields",
}
