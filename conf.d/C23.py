# C23 - receive coalescing is transparent to the tun device (see DESIGN.md section 4)
CHECK = {
    "pkg": "overlay/batch", "files": ["overlay/batch/c23_test.go"], "run": "^TestC23",
    "quick": {"scale": 1, "shards": 1, "timeout": 600},
    "thorough": {"scale": 10, "shards": 8, "timeout": 1500},
    "rule": "rapid-generated batches (1-3 flush rounds on one MultiCoalescer; 1-300 packets; 1-12 flows over IPv4/IPv6 x "
            "TCP/UDP/other sharing addresses and ports; two tunnel epochs; counters with gaps) built packet by packet from "
            "per-flow state with drawn step kinds (contiguous data, PSH, short/long segments, gaps, retransmits, pure ACKs, "
            "FIN/SYN/RST/URG/CWR, ECE toggles, ack/window/option/reserved-bit changes; UDP short/long/zero datagrams, UDP "
            "length != IP length, zero/bad checksums; TOS/TTL/flow-label changes, DF toggles, sequential/random/constant "
            "IPv4 IDs incl. wrap, IPv4 options, IPv6 extension headers, first/later fragments, trailing bytes, declared "
            "length short/long, truncated L4, bad data offset) and a drawn arrival permutation. ParsedPacket metadata is "
            "computed as outside.go newPacket does (IPv6 via the real iputil.IPv6FindUpperProtocol). Recorded "
            "Write/WriteGSO calls are checked for kernel-acceptable geometry and expanded by verifkit/gso.Segment; the "
            "normalised output must be a permutation of the input and per flow+epoch in counter order (pure TCP ACKs may "
            "trail later data). Non-trivial: >= 1 WriteGSO with >= 2 segments and (arrival order != transmission order or "
            ">= 2 flows interleaved); distinct by hash of packets and keys.",
    "assumptions": ["(epoch, counter) keys are unique within a batch (replay window)",
                    "packets refused by newPacket never reach the batcher",
                    "IPv6 extension-header chains are kept to one header (longer chains belong to C20)",
                    "kernel segment ceiling taken as 64 (UDP_MAX_SEGMENTS of the first USO kernels)"],
    "engine": "E-pure/model",
    "technique": "rapid generators against a reference kernel-GSO segmenter, multiset + order oracle",
}
