CHECK = {
    "pkg": ".", "tags": "e2e_testing", "hide": ["interface_emit_test.go"],
    "files": ["netsim/ns_core_test.go", "netsim/ns_world_test.go", "netsim/ns_history_test.go", "netsim/c09_test.go"],
    "run": "^TestC09", "env": {"GOMAXPROCS": "1", "GODEBUG": "asyncpreemptoff=1"},
    "quick": {"scale": 1, "shards": 4, "timeout": 900},
    "thorough": {"scale": 6, "shards": 12, "timeout": 2400},
    "engine": "E-netsim",
    "technique": "rapid-generated multi-node histories over real nodes in a synctest bubble; hostmap binding invariant after every step",
    "rule": "Each case is a generated world of 2-4 hosts (+ optional lighthouse/relay) drawn from a zoo: honest v1/v2/v1+v2 identities with one or two overlay addresses, a trusted host placed at the underlay address where others expect a different peer (wrong responder), a trusted host whose certificate lists another node's address (own-address claimant), hosts with untrusted-CA/expired/blocklisted certificates; histories of 15-60 steps (tun injections, in/out-of-order delivery, drop, duplicate, replay, virtual time, close, re-handshake). After every step, on every node: every tunnel used for address A comes from a completed handshake whose peer certificate lists A, recorded peer addresses equal the certificate's list, the certificate passes the trust rule, no tunnel to an own address, primaries head their lists, and no handshake goes to an underlay address marked bad for that peer. Non-trivial: a wrong responder, own-address claimant or rejected identity actually answered a handshake, or a multi-address tunnel completed; distinct by step list.",
    "assumptions": ["trust of each identity is known by construction of the world (which CA signed it, validity window, blocklist)"],
}
