# C44 - DNS responder answers only from authenticated data (unit level; see DESIGN.md section 4)
CHECK = {
    "pkg": ".", "files": ["root/c44_test.go"], "run": "^TestC44",
    "quick": {"scale": 1, "shards": 1, "timeout": 600},
    "thorough": {"scale": 20, "shards": 8, "timeout": 1800},
    "engine": "E-model",
    "technique": "rapid-generated handshake histories (HostMap.unlockedAddHostInfo with generated certificates) and query "
                 "messages (wire round trip) to dnsServer.handleDnsRequest against a reference zone built only from the history",
    "rule": "per case: own certificate (1-3 overlay addresses, v4/v6), 0-5 peer certificates with names from a small label pool "
            "(mixed case, dots, duplicates across peers and with the own name), colliding addresses, some never completing a "
            "handshake, responder enabled/disabled; then 1-8 query messages of 1-3 questions (A, AAAA, TXT by address and by "
            "name, MX/ANY/CNAME/SRV/PTR/NS/SOA/HTTPS/private types; known names with random case, unknown, never-seen, junk) from "
            "loopback / own / peer / neighbour / foreign clients. evaluations counts query messages. Non-trivial: message "
            "mixing known and unknown names, or a non-A/AAAA type for a known name. Distinct by client class, questions and the "
            "zone's view of the asked names.",
    "assumptions": [
        "unit level: the handshake is represented by the call HostMap.unlockedAddHostInfo that Complete/CheckAndComplete make; "
        "peer overlay addresses never equal own addresses (the handshake code refuses those)",
        "only soundness is asserted (answers come from the zone, NXDOMAIN only for unknown names, TXT only for authorised "
        "clients); whether a known record must be answered is not part of the statement",
    ],
}
