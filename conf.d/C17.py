# C17 - overlay source and destination addresses are authentic (see DESIGN.md section 4)
CHECK = {
    "pkg": ".", "files": ["root/fwref_test.go", "root/c17_test.go"], "run": "^TestC17",
    "quick": {"scale": 1, "shards": 1, "timeout": 600},
    "thorough": {"scale": 30, "shards": 8, "timeout": 1800},
    "rule": "histories of 4-24 packets through ONE firewall (one conntrack table, one routine-local ConntrackCache used by half "
            "the calls) shared by 1-3 peers built like the handshake code builds them (vpnAddrs + buildNetworks); addresses drawn "
            "freely from: node addresses, other hosts in the node's networks, node/peer unsafe networks, every peer's certified "
            "addresses (inside and outside the node's networks), network/broadcast/unspecified/multicast/mapped strangers; a third "
            "of the steps replay an earlier tuple through another peer/direction; rule sets allow-everything (half), inbound-only, "
            "or random; a quarter of the histories start from a conntrack table/cache pre-seeded with arbitrary tuples. "
            "Oracle (implication only): Drop()==nil => remote in (peer certified addresses within node networks) U peer unsafe "
            "networks and local in node certified addresses U node unsafe networks, computed from certificate data alone. "
            "Non-trivial: the tuple is already tracked/cached but was never established through this peer, or the remote address "
            "is certified for the peer but outside the node's networks. Distinct by (node, peer, rules, packet, direction, state).",
    "assumptions": ["HostInfo built as handshake_manager.go does: vpnAddrs = all certified addresses, buildNetworks(myVpnNetworksTable, cert)"],
    "engine": "E-model", "technique": "rapid history against certificate-derived address sets (implication)",
}
