# C38 - allow lists use longest-prefix semantics with a safe default (DESIGN.md section 4)
CHECK = {
    "pkg": ".", "files": ["root/c38_test.go"], "run": "^TestC38",
    "quick": {"scale": 1, "shards": 1, "timeout": 600},
    "thorough": {"scale": 20, "shards": 8, "timeout": 1500},
    "rule": "rapid draws of allow-list maps (0..7 CIDR keys over IPv4 / IPv6 / IPv4-mapped spellings, all prefix lengths, "
            "canonical or with host bits set, per-family value policy uniform-allow / uniform-deny / mixed, optional explicit "
            "/0 defaults, yaml boolean spellings, injected malformed keys and values), remote_allow_list + "
            "remote_allow_ranges with nested lists, and local allow lists with interface-name rule sets; every accepted "
            "list is queried at prefix edges (first, last, one before, one after, inside) and the answers compared with "
            "a linear longest-prefix reference; refusal is compared with the documented rule. Non-trivial: two prefixes "
            "of one family where one contains the other, or a mapped prefix, or a nested range list (or >=2 name rules); "
            "distinct by configuration text.",
    "assumptions": [
        "queried addresses are unmapped (all call sites pass socket / protobuf addresses that were unmapped)",
        "a CIDR key with host bits set denotes the masked prefix; two spellings of the same prefix in one map are not generated",
        "an IPv4-mapped key of length >= 96 denotes the IPv4 prefix of length-96; mapped keys shorter than /96 are not generated",
        "of several remote_allow_ranges containing the overlay address the most specific one applies",
        "string spellings other than y/yes/n/no (\"true\", \"off\", \"Y\"...) are generated but acceptance is not asserted either way",
        "interface-name patterns are limited to literal / prefix.* / .*suffix / stem[0-9]+ forms whose match set is computable without a regex engine",
    ],
    "engine": "E-pure", "technique": "rapid generators against an independent flat longest-prefix evaluator",
}
