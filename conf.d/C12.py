# C12 - a data packet is delivered at most once (unit level; the over-the-wire part is added by the lead)
CHECK = {
    "parts": [
        {
            "pkg": ".", "files": ["root/c12_test.go"], "run": "^TestC12_Schedules",
            "quick": {"scale": 1, "shards": 1, "timeout": 600},
            "thorough": {"scale": 20, "shards": 8, "timeout": 1500},
        },
        {
            "pkg": ".", "files": ["root/c12_test.go"], "run": "^TestC12_Parallel", "race": True,
            "quick": {"scale": 1, "shards": 1, "timeout": 600},
            "thorough": {"scale": 15, "shards": 6, "timeout": 1500},
        },
        # the last step of delivery, the batching layer in front of the tun device, under injected write faults
        {
            "pkg": "overlay/batch", "files": ["overlay/batch/c23_test.go"], "run": "^TestC12_TunWriteFaults",
            "quick": {"scale": 1, "shards": 1, "timeout": 600},
            "thorough": {"scale": 10, "shards": 8, "timeout": 1500},
        },
    ],
    "engine": "E-sched",
    "technique": "rapid-generated start/release schedules over a gated AEAD (dKey) around the real "
                 "ConnectionState.Decrypt/VerifyRelay, against a set model of the replay window; plus real parallel "
                 "receivers under the race detector",
    "rule": "A case is one ConnectionState (window length 16/64/128/8192, AES-GCM or ChaCha20-Poly1305), 1-4 genuine "
            "packets (data, relay, lighthouse, test, close, control) at generated counters around window/word edges, "
            "2-8 received packets that are copies or forgeries (tag/body/header bit flip, re-stamped counter, grown, "
            "shrunk, wrong key) and a start/release schedule of the goroutines that process them. Non-trivial: at some "
            "moment >=2 packets with the same counter (at least one genuine) were parked between window.Check and "
            "window.Update; distinct by the full case text (packets + schedule). The -race part counts every run of "
            "2-8 real parallel receivers over 20-400 counters with duplicates and forgeries. The tun-batching part replays the "
            "generated batches of C23 through the real MultiCoalescer with 1-3 injected device write faults per flush and checks "
            "over that flush and the next one that every committed packet was handed to the device exactly once (non-trivial: a "
            "fault fired in a batch of >=2 packets).",
    "assumptions": [
        "interleavings are explored at the granularity of the two critical sections of Decrypt/VerifyRelay (the "
        "cipher call is the only preemption point the harness owns); finer interleavings only by the -race part",
        "oracle (B) (verdicts equal the set model linearised in completion order) is the DESIGN.md strengthening "
        "that makes 'at most once' non-vacuous; it is exact because the window is monotone",
        "caller preconditions of readOutsidePackets are kept: valid version/subtype, len >= header+tag",
    ],
}
