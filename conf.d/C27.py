# C27 - received offload superdatagrams split back exactly (see DESIGN.md section 4)
CHECK = {
    "pkg": "udp", "files": ["udp/c27_test.go", "udp/c27_loop_test.go"], "tags": "", "run": "^TestC27",
    "quick": {"scale": 1, "shards": 1, "timeout": 600},
    "thorough": {"scale": 12, "shards": 8, "timeout": 1500, "fuzz": [{"target": "FuzzC27", "seconds": 60}]},
    "rule": "deliverSegments: payload length 0..70000 (views of a shared arena with spare capacity) x segSize class "
            "{negative, 0, 1, len-1, len, len+1, huge, exact divisor, near divisor, half, small, random}; pieces are "
            "compared by address/len/cap against consecutive segSize-long windows of the payload (whole delivery for "
            "size <= 0 or >= len). parseRecvCmsg: control buffers built as chains of 0..4 well-formed cmsgs (UDP_GRO and "
            "others, odd data lengths), optionally followed by a header with a corrupt length (0, <hdr, >remaining, "
            "near 2^63/2^64), a truncated GRO cmsg, an unaligned length, or stale cmsgs beyond the reported controllen; "
            "plus arbitrary bytes. Each buffer is parsed with 13 different surroundings (zeros, 0xff, valid-looking "
            "UDP_GRO cmsgs at every byte phase before/after the data, a completion of a partial trailing header, random) "
            "and flush against / right after a PROT_NONE page (faults are turned into failures); all results must be equal "
            "and, where the chain determines it, equal to an independent CMSG_NXTHDR walk; the parsed size is then fed to "
            "deliverSegments. Non-trivial: segSize splits the payload in >=2 pieces with a short tail, or the cmsg chain "
            "has >=2 headers or ends at a corrupt length; distinct by (len,segSize) / (controllen, buffer bytes). Loopback part: two production sockets on 127.0.0.1 with offloads on, "
            "1-10 generated sends (WriteBatch bursts of equal sizes = one UDP_SEGMENT superdatagram, mixed-size batches, single "
            "datagrams of 0..40000 bytes) received by ListenOut with 2..64 receive slots; the pieces delivered must be exactly the "
            "datagrams sent, in order (non-trivial there: a plain datagram received after a coalesced one).",
    "assumptions": [
        "cmsghdr layout {size_t len; int level; int type} with word alignment (Linux ABI) is the specification of the ancillary data",
        "the value is only compared with the reference walk when every visited UDP_GRO cmsg covers its 4-byte payload "
        "(a UDP_GRO cmsg shorter than that has no defined value; only no-panic / no-outside-read is checked there); "
        "with several UDP_GRO cmsgs any of their values is accepted (the kernel emits at most one)",
        "reads outside the control data are detected through result changes and page faults, not through instrumentation",
    ],
    "engine": "E-pure + E-fuzz",
    "technique": "rapid generators against a reference splitter / reference cmsg walk, metamorphic guard-byte variation, "
                 "guard-page placement; native fuzz target FuzzC27 with the same oracle",
}
