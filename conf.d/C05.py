# C05 - a handshake completes only with an authenticated peer (machine-level part; the multi-node
# netsim part is added by the lead as a further entry of "parts")
CHECK = {
    "parts": [
        {"pkg": "handshake", "files": ["handshake/hsgen_test.go", "handshake/c05_test.go"], "run": "^TestC05",
         "quick": {"scale": 1, "shards": 1, "timeout": 300},
         "thorough": {"scale": 20, "shards": 8, "timeout": 900}},
        # network level: real nodes in a synctest bubble (engine E-netsim)
        {"pkg": ".", "tags": "e2e_testing", "hide": ["interface_emit_test.go"],
         "files": ["netsim/ns_core_test.go", "netsim/ns_world_test.go", "netsim/ns_history_test.go", "netsim/c09_test.go"],
         "run": "^TestC05_Net", "env": {"GOMAXPROCS": "1", "GODEBUG": "asyncpreemptoff=1"},
         "quick": {"scale": 1, "shards": 4, "timeout": 900},
         "thorough": {"scale": 6, "shards": 12, "timeout": 2400}},
    ],
    "rule": "network level: generated worlds of 2-4 real nodes (honest, untrusted-CA, expiring, blocklisted, wrong-responder and "
            "own-address-claimant identities, optional lighthouse/relay) under an active network adversary (reorder, drop, duplicate, "
            "replay, bit flips, truncation, header substitution, cross-packet splices); after every step every tunnel in every "
            "node's hostmap must carry a certificate that node's trust configuration accepts at that instant and keys that pair "
            "only with tunnels held by the certified identity; non-trivial there: a non-accepted identity initiated or answered a "
            "handshake. machine level: rapid histories of 4..40 steps over an identity zoo (4 honest identities with v1/v2/v1+v2 "
            "certificates, malicious-but-trusted M, untrusted-CA, expired, blocklisted, and three key-mismatch kinds: stolen "
            "certificate without the private key, foreign certificate body with own key, full certificate with embedded key), "
            "both curves and ciphers (occasional cipher mismatch); steps create initiator/responder Machines or deliver any "
            "message produced so far to any Machine, unmodified / replayed / cross-routed / truncated / bit-flipped / "
            "header-substituted / spliced across sessions; adversary-held Machines accept every certificate. Non-trivial: "
            "history with >=1 adversarial delivery to a Machine that later completes, or >=1 completion attempt by a "
            "non-accepted identity against an honest Machine; distinct by history (packet bytes elided).",
    "assumptions": [
        "AEAD, DH and signatures are ideal: the adversary manipulates bytes and uses keys it legitimately holds",
        "IX sends s in clear in message 1: a responder completing on a replayed/forged first message is not a violation as long as nobody but the named key holder owns a session pairing with its keys",
        "all messages originate from Machines (possibly adversary-held) and byte-level mutations of them",
    ],
    "engine": "E-model + E-netsim",
    "technique": "rapid state machine with an active adversary; invariant after every step with a key-ownership oracle over CipherState.UnsafeKey / HandshakeState.PeerStatic",
}
