# C28 - hostmap indexes stay consistent (see DESIGN.md section 4)
CHECK = {
    "pkg": ".", "files": ["root/c28_test.go"], "run": "^TestC28",
    "quick": {"scale": 1, "shards": 1, "timeout": 600},
    "thorough": {"scale": 15, "shards": 8, "timeout": 1500},
    "rule": "rapid histories of 1..60 operations over one real HostMap + HandshakeManager: add (fresh hostinfo with 1-3 of 4 "
            "overlay addresses, local index from 1..14 not currently held, remote index from 1..5 with collisions), re-add of a "
            "live hostinfo, DeleteHostInfo of any tunnel that ever was in the main map (incl. already removed), MakePrimary of any "
            "(incl. removed), AddRelay via any (incl. removed), CheckAndComplete with arbitrary (possibly held) index / replayed "
            "packet / older time, StartHandshake+allocateIndex, Complete with a divergent certificate address list, pending "
            "timeout. After every operation Hosts, moreHosts, Indexes, RemoteIndexes, Relays and the pending maps are compared "
            "with a reference model. Non-trivial: history with an eviction (cap of five exceeded) or a delete of a non-primary "
            "tunnel followed later by a promotion that reorders a list; distinct by operation log.",
    "assumptions": [
        "eviction order is the per-address list order (newest or most recently promoted first), applied address by address in "
        "certificate order, as documented in the hostmap.go comments",
        "hostinfos that never entered the main hostmap (refused by CheckAndComplete, timed out while pending) are not passed to "
        "DeleteHostInfo/MakePrimary/AddRelay: no real caller holds such a reference",
    ],
    "engine": "E-model", "technique": "rapid state machine against a reference model of the hostmap",
}
