# C43 - encrypted private keys open only with the right passphrase (see DESIGN.md section 4)
CHECK = {
    "pkg": "cert", "files": ["cert/certgen_test.go", "cert/c43_test.go"], "run": "^TestC43",
    "quick": {"scale": 1, "shards": 1, "timeout": 600},
    "thorough": {"scale": 4, "shards": 8, "timeout": 1800, "fuzz": [{"target": "FuzzC43Decrypt", "seconds": 90}]},
    "rule": "Ed25519 (64-byte) and P-256 (32-byte) signing keys (real and arbitrary bytes), passphrases (empty, ASCII, "
            "unicode, 20-4800 bytes, arbitrary bytes), Argon2id parameters kept tiny (memory 8-64 KiB, 1-2 iterations, "
            "parallelism 1-4, random or drawn 16-40 byte salt); per case: round trip with trailing data, 2-5 passphrases at edit "
            "distance 1, and 6 altered files (ciphertext nonce/body/tag bit, truncation, extension; salt bit/short/empty; each "
            "KDF parameter incl. 0 and out-of-range; Argon2 version; algorithm string; missing parameter/metadata message; "
            "unknown protobuf field; every other banner incl. the other curve's and the unencrypted ones; PEM whitespace, "
            "header, base64 character, truncation). Non-trivial: wrong passphrase, or a mutant whose decoded tuple differs from "
            "the original. Plain key PEM helpers: all four marshal/unmarshal pairs x both curves round-trip (with trailing "
            "data) and every unmarshaler (and the decrypter) refuses each of 14 foreign banners.",
    "assumptions": ["mutants asking Argon2 for more than 1 MiB or more than 4 iterations are not executed (resource guard, counted "
                    "as skipped:expensive-params)",
                    "AES-GCM / Argon2id are treated as ideal: no key or passphrase search",
                    "a file whose parsed (banner, algorithm, parameters, salt, ciphertext) tuple equals the original's may open"],
    "engine": "E-pure + E-fuzz",
    "technique": "rapid round trip, near-miss passphrases and field-aware / text-level mutation of the encrypted file against a "
                 "harness-side parse of the file; banner matrix for the PEM helpers; native fuzz of the decrypt path",
}
