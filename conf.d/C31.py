CHECK = {
    "pkg": ".", "tags": "e2e_testing", "hide": ["interface_emit_test.go"],
    "files": ["netsim/ns_core_test.go", "netsim/ns_world_test.go", "netsim/ns_history_test.go", "netsim/c31_test.go"],
    "run": "^TestC31", "env": {"GOMAXPROCS": "1", "GODEBUG": "asyncpreemptoff=1"},
    "quick": {"scale": 1, "shards": 4, "timeout": 900},
    "thorough": {"scale": 5, "shards": 12, "timeout": 2400},
    "engine": "E-netsim",
    "technique": "rapid-generated delivery interleavings of two real nodes handshaking concurrently inside a synctest bubble; bounded-horizon convergence oracle",
    "rule": "Two real nodes (v1/v2 certificate mixes, optional second IPv6 address) start handshakes with each other simultaneously, staggered, or re-handshake over a live tunnel; 0-30 adversary steps (out-of-order delivery, duplicate, at most 4 drops, small virtual-time advances, extra traffic, extra re-handshakes); then 20 s of steady bidirectional traffic over a lossless in-order network and 16 s of quiet. Checked: shared hostmap/key/tun invariants after every step; probes get through in both directions once a handshake completed on both ends; at most one node ever swaps its primary to an older tunnel it still holds alongside the previous primary; finally one mirrored tunnel per node (judged only when nothing is pending). Non-trivial: both nodes' initiations produced a tunnel; distinct by mode and step list.",
    "assumptions": ["liveness is only checked inside the bounded virtual-time horizon of the fair phase (20 s traffic + 16 s quiet with 2 s check intervals)",
                    "the fair phase carries steady traffic in both directions, as the connection manager's swap logic is driven by inbound traffic"],
}
