# C04 - issuance never exceeds the signing CA (see DESIGN.md section 4)
CHECK = {
    "parts": [
        {"pkg": "cert", "files": ["cert/certgen_test.go", "cert/c04_test.go"], "run": "^TestC04",
         "quick": {"scale": 1, "shards": 1, "timeout": 600},
         "thorough": {"scale": 5, "shards": 8, "timeout": 1800}},
        {"pkg": "cmd/nebula-cert", "files": ["cmd/nebula-cert/c04cli_test.go"], "run": "^TestC04",
         "quick": {"scale": 1, "shards": 1, "timeout": 600},
         "thorough": {"scale": 8, "shards": 4, "timeout": 1800}},
    ],
    "rule": "(signer CA with its own key, request) pairs from the C01 constraint-lattice generator: requests inside every "
            "constraint, or violating window / groups / networks / unsafe networks / curve / CA flag / one structural rule "
            "(no network, zero address, IPv6 in v1, 4in6, duplicate prefix, unsafe family without address, empty key, "
            "invalid prefix); self-signing with and without the CA flag; issued through Sign and through SignWith with a "
            "lambda returning high- or low-S signatures. Non-trivial: exactly one violated rule, or an issued certificate "
            "under a constrained CA. Distinct by the (signer, request, mode) description. CLI part: generated flag sets drive "
            "ca(...) and then signCert(...) in a scratch directory inside a synctest bubble (virtual clock): CA version, curve, "
            "lifetime 1 s .. 100 h, optional groups / networks / unsafe networks, plain or encrypted key; sign at +0, +1 s, "
            "lifetime-1 s, lifetime, lifetime+1 s with default duration, duration ending exactly with / one second after / before "
            "the CA, version 0/1/2, networks inside / outside the CA prefixes, zero address, 4in6; same non-triviality rule.",
    "assumptions": ["the signing key belongs to the signer (every caller guarantees it: nebula-cert sign runs VerifyPrivateKey)",
                    "the statement bounds success only ('only when'): refusals of admissible requests are recorded in the "
                    "label histogram (refused-although-within-constraints) but are not violations"],
    "engine": "E-pure (library), E-pure in a synctest bubble (CLI)",
    "technique": "rapid generated signer/request pairs against the reference constraint predicate; issued certificates "
                 "verified against a pool holding the signer; low-S checked with math/big",
}
