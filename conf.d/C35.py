# C35 - lighthouse information is accepted only from authorized senders (DESIGN.md section 4)
CHECK = {
    "pkg": ".", "files": ["root/c35_test.go"], "run": "^TestC35",
    "quick": {"scale": 1, "shards": 1, "timeout": 600},
    "thorough": {"scale": 80, "shards": 8, "timeout": 1800},
    "rule": "per case a LightHouse is built from a generated config (lighthouse or client with 0-2 configured lighthouses, "
            "one known under its second overlay address; static hosts; one or two overlay networks; v1/v2 default version; "
            "punchy.respond on/off) inside a synctest bubble and fed 1..30 requests from 7 peers (single- and multi-address, "
            "lighthouses and ordinary hosts): every NebulaMeta type, v1 / v2 / both / mapped spellings of the claimed "
            "address (sender's own, somebody else's, none), 0-25 v4 and v6 addresses, old and new relay lists, missing "
            "details, truncated / bit-flipped / arbitrary bytes, plus tunnel-up events that record a learned address. After "
            "every request the whole address cache (keys, list sharing, per-owner learned/reported/relay), the messages "
            "sent, handshake triggers and the punch schedule (drained under virtual time) are compared with a reference "
            "model. Non-trivial: a host update claiming an address the sender is not authenticated for, or a query "
            "reply / punch notification to a client from a sender that is not a configured lighthouse; distinct by history.",
    "assumptions": [
        "generated underlay addresses lie outside the node's overlay networks and no remote allow list is configured (C36 covers filtering); addresses inside the own networks that arise from bit-flipped messages are dropped by the reference as well",
        "EncWriter.GetHostInfo returns nil (no established tunnel to the queried host), so punch notifications use the node's default certificate version",
        "wire bytes are decoded for the reference with the generated protobuf code into a fresh message (protobuf decoding is not the subject)",
        "several punches with the same deadline are compared as a multiset",
    ],
    "engine": "E-model", "technique": "rapid histories inside a synctest bubble against a reference lighthouse model",
}
