CHECK = {
    "pkg": ".", "tags": "e2e_testing", "hide": ["interface_emit_test.go"],
    "files": ["netsim/ns_core_test.go", "netsim/ns_world_test.go", "netsim/ns_history_test.go", "netsim/c39_test.go"],
    "run": "^TestC39", "env": {"GOMAXPROCS": "1", "GODEBUG": "asyncpreemptoff=1"},
    "quick": {"scale": 1, "shards": 4, "timeout": 900},
    "thorough": {"scale": 3, "shards": 14, "timeout": 2400},
    "engine": "E-netsim",
    "technique": "rapid-generated relay histories with hostile control messages over real nodes in a synctest bubble; forwarding-attribution and relay-table hygiene oracles",
    "rule": "Worlds: one relay (am_relay on in 80% of cases), three hosts with 80% of direct paths blocked, relays injected so relayed tunnels form. Histories of 20-80 steps: traffic, in/out-of-order delivery, drop, duplicate, replay, mutants, virtual time, close, re-handshake, hostile NebulaControl messages sent through real tunnels (any type incl. unknown, from/to = own, third party, relay, unknown, nil; indexes random/zero/known live or stale; v1 and v2 forms; garbage bytes), relay-typed data naming any index known at the relay, and a directed 'half-open' operation (request to Y whose onward leg is lost, then data under the half-open index). Checked after every delivery to the relay of a relay-typed datagram from host X: anything it forwards goes to a host Y != relay that itself holds or held terminal relay state for one of X's certified addresses, only if am_relay; inner bytes unchanged; after every step: relay table entries point at live tunnels that list them, entries keep type/peer/index, PeerRequested only on creation. Non-trivial: >=1 forwarded datagram and >=1 hostile control message; distinct by step list.",
    "assumptions": ["AEAD is ideal: the adversary manipulates bytes and uses keys it legitimately holds (the relay's)", "a host that negotiates a relay to itself by playing both halves gets its own traffic reflected; both negotiating peers are the sender, so this is recorded, not judged"],
}
