# C24 - superpacket segmentation yields valid original segments (see DESIGN.md section 4)
CHECK = {
    "pkg": "overlay/tio", "files": ["overlay/tio/c24_test.go"], "run": "^TestC24",
    "quick": {"scale": 1, "shards": 1, "timeout": 600},
    "thorough": {"scale": 12, "shards": 8, "timeout": 1500},
    "rule": "rapid-built superpackets in the form a vnet-hdr tun read returns them: IPv4 (IHL 5-15, DF/no DF, IDs near wrap) / "
            "IPv6 (0-2 extension headers) x TCP (data offset 5-15, all flag mixes, seq near 2^32) / UDP; geometry by "
            "construction: typical MSS, tiny (1-60, below the header length), small, single segment, header-only, 200-3000 "
            "segments, exactly 65535 bytes, gso_size 65535; tails exact/1/g-1/random; payload random/zero/ff with one "
            "segment's checksum optionally forced to compute to zero; virtio hdr_len true/first-packet/zero/random, ECN bit, "
            "dirty total-length/IP-checksum/L4-checksum fields. Driven through Offload.decodeRead -> SegmentSuperpacket; "
            "every yielded segment is copied and compared with verifkit/gso.Expand of the clean packet and verified with "
            "the independent RFC 1071 sum. Non-trivial: >= 2 segments with an odd tail, IP/TCP options or extension "
            "headers, or a wrap of seq/IPv4 ID; distinct by the case parameter tuple. A second half feeds documented "
            "must-refuse header/packet mismatches and arbitrary offsets (no panic).",
    "assumptions": ["superpackets are at most 65535 bytes (tun read buffer slot)",
                    "L3+L4 header above 120 bytes may be refused (documented segmenter limit); if accepted it must be right",
                    "0x0000 and 0xffff are the same one's-complement checksum value for IPv4/TCP; UDP must not carry 0x0000"],
    "engine": "E-pure",
    "technique": "rapid generators against a reference kernel-GSO segmenter and an independent checksum",
}
