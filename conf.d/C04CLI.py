# TEMPORARY (sensitivity runs of the CLI part alone) - removed afterwards
CHECK = {"pkg": "cmd/nebula-cert", "files": ["cmd/nebula-cert/c04cli_test.go"], "run": "^TestC04",
         "quick": {"scale": 1, "shards": 1, "timeout": 600}, "thorough": {"scale": 1, "shards": 1, "timeout": 600}, "rule": "tmp"}
