# C16 - firewall verdicts follow the rule semantics (see DESIGN.md section 4)
CHECK = {
    "pkg": ".", "files": ["root/fwref_test.go", "root/c16_test.go"], "run": "^TestC16",
    "quick": {"scale": 1, "shards": 1, "timeout": 600},
    "thorough": {"scale": 15, "shards": 8, "timeout": 1800},
    "rule": "rapid draws of a node certificate (1-3 overlay networks, 0-3 unsafe networks, default_local_cidr_any), a peer "
            "certificate (name, groups, 1-3 networks inside/outside the node's, unsafe networks, issuer in/out of the CA pool), "
            "0-8 rules added through AddRule over colliding universes (proto any/tcp/udp/icmp/icmpv6; port any, fragment, 0-x, "
            "single, range; groups incl. any; host; cidr; local_cidr; ca_name; ca_sha; a third of the rules are variants of an earlier rule, "
            "a quarter of the rule sets share one proto/port/CA bucket, a sixth are ladders of nested remote/local prefixes around a target packet) and 4 packets per rule set whose addresses "
            "satisfy the C17 precondition; Drop on a fresh conntrack is compared with a flat reference evaluator "
            "(exists rule: proto AND port AND ca AND local AND peer), and an allowed packet must be tracked. A metamorphic test "
            "checks invariance under rule reordering and splitting OR-clauses into separate rules. "
            "Non-trivial: allowed by a rule that is not the first of >=2 rules, or denied while some same-direction rule matches "
            "all clauses but one (label deny-nearmiss-<clause>); metamorphic cases with >=2 rules. Distinct by (node, peer, rules, packet, direction).",
    "assumptions": ["ICMP packets match only rules whose port is any (pinned by TestFirewall_ICMPPortBehavior)",
                    "rules in AddRule form as the config loader produces them (start<=end, 0 any, -1 fragment)"],
    "engine": "E-pure", "technique": "rapid generators against a flat reference evaluator + metamorphic relation",
}
