# C46 - CPU pinning choices are valid and stable; cpulist parsing (see DESIGN.md section 4)
CHECK = {
    "pkg": "cpupick", "files": ["cpupick/c46_test.go"], "run": "^TestC46",
    "quick": {"scale": 1, "shards": 1, "timeout": 600},
    "thorough": {"scale": 8, "shards": 8, "timeout": 1500},
    "engine": "E-pure",
    "technique": "rapid: arrange/pickCandidates over generated NUMA/SMT machines against the statement's set/order predicates; "
                 "the Default pipeline over fake sysfs trees written from a machine model and judged against the model; "
                 "parseCPUList over kernel-printed lists (round trip) and a mutation grammar against an independent classifier",
    "rule": "machines of 1-4 NUMA nodes with 1-5 cores each (uneven), SMT 1/2/4, adjacent or split sibling numbering, dense or "
            "sparse CPU ids; allowed/perf subsets (all, random, without CPU 0, tail); routines 1..|allowed|+3; keys incl. "
            "neighbouring ports; flat topology; CPU 0's core known/unknown; fake sysfs with unreadable topology files, missing "
            "NUMA dirs, unclaimed CPUs, decoy node entries, capacity/intel-mask/max-freq signals. cpulist strings: kernel print "
            "form of generated sets, and 1-2 mutations (insert/delete characters, hostile tokens). Non-trivial: topology with >= 2 "
            "NUMA nodes among the candidates or SMT siblings; cpulist containing a range. Distinct by full input.",
    "assumptions": [
        "the SMT one-thread-per-core-first order is documented in the package but is not in the statement and is not asserted",
        "cpulist: forms only the kernel's parser tolerates (blanks, repeated commas, all, N, :used/group), numbers beyond 2^20 and "
        "ranges wider than 8192 are left to the implementation; forms neither printed nor parsed by the kernel must be refused",
    ],
}
