# C03 - every issued certificate decodes back to itself (see DESIGN.md section 4)
CHECK = {
    "pkg": "cert", "files": ["cert/certgen_test.go", "cert/c03_test.go"], "run": "^TestC03",
    "quick": {"scale": 1, "shards": 1, "timeout": 600},
    "thorough": {"scale": 5, "shards": 8, "timeout": 1800, "fuzz": [{"target": "FuzzC03Decode", "seconds": 90}]},
    "rule": "requests over the whole input space of Sign/SignWith: names of 0, 1, 253, 254, 255, 300 and arbitrary byte length "
            "(raw bytes incl. invalid UTF-8, ASCII, multi-byte runes), 0-6 groups incl. empty strings, duplicates and 200-byte "
            "groups, 0-40 networks and unsafe networks (both families, host bits set, /0../32,/128, zero address, 4in6, "
            "duplicates, IPv6 in v1), CA and host, v1/v2, both curves, times from year 1 to 9999 with sub-second parts, "
            "right-size and arbitrary public keys; self-signed or signed by an unconstrained signer, through Sign or SignWith. "
            "Whatever is issued must decode from the standard, PEM and handshake+Recombine encodings to the requested fields, "
            "same signature and same fingerprint. Second half: random bytes, hand-built hostile v1 protobuf / v2 ASN.1 "
            "encodings that bypass validation, and byte-mutated valid encodings into UnmarshalCertificateFromPEM and Recombine "
            "(all versions): no panic, accepted certificates obey the structural rules (reference re-implementation) and carry "
            "a signature. Non-trivial: issued certificate whose request is not plain (name length outside 1..253, empty group, "
            ">1 network, or unsafe networks); decoder input that is accepted. Distinct by request description / input bytes.",
    "assumptions": ["the encoded certificate stays below MaxCertificateSize (64 KiB); larger requests are not generated",
                    "only the two defined curves are requested"],
    "engine": "E-pure + E-fuzz",
    "technique": "rapid round trip against the request model; hostile-encoding builders and native fuzzing against a "
                 "re-implementation of the structural rules",
}
