# C06 - completed handshakes agree on keys and indexes (see DESIGN.md section 4)
CHECK = {
    "parts": [
        {"pkg": "handshake", "files": ["handshake/hsgen_test.go", "handshake/c06_test.go"], "run": "^TestC06",
         "quick": {"scale": 1, "shards": 1, "timeout": 300},
         "thorough": {"scale": 24, "shards": 8, "timeout": 900}},
        {"pkg": ".", "files": ["root/c06_root_test.go"], "run": "^TestC06",
         "quick": {"scale": 1, "shards": 1, "timeout": 300},
         "thorough": {"scale": 20, "shards": 4, "timeout": 900}},
    ],
    "rule": "rapid draws of (curve X25519/P-256, cipher ChaChaPoly/AES-GCM, initiator and responder certificate-version "
            "configuration v1 / v2 / v1+v2 starting at either, index allocators over the full non-zero uint32 range incl. "
            "1, 2^32-1 and equal on both sides, data counter, plaintext, AD); real IX sessions between two Machines. "
            "Non-trivial: every pair in which both sides completed; distinct by (curve, cipher, version pair, indexes, probe). "
            "Oracle: raw keys (UnsafeKey) cross-paired and different per direction, indexes mirrored and equal to the "
            "allocated ones, equal message count, data-plane wrappers (noiseutil / newConnectionStateFromResult) decrypt "
            "only in the paired direction and agree byte-for-byte with the Noise transport cipher (std AEAD over the raw "
            "key and flynn/noise CipherState), counters/window seeded from MessageIndex.",
    "assumptions": [
        "index allocators never return zero (documented IndexAllocator precondition)",
        "the receiving key held in Result.DKey is a flynn/noise CipherState; 'decrypts with the other side's receiving key' is "
        "evaluated against that library implementation as well as against the in-tree data-plane wrapper",
    ],
    "engine": "E-pure",
    "technique": "rapid property over generated IX sessions; differential of the data-plane cipher against the Noise reference cipher",
}
