# C22 - firewall configuration parses exactly (see DESIGN.md section 4)
CHECK = {
    "pkg": ".", "files": ["root/fwref_test.go", "root/c22_test.go"], "run": "^TestC22",
    "quick": {"scale": 1, "shards": 1, "timeout": 600},
    "thorough": {"scale": 10, "shards": 8, "timeout": 1800},
    "rule": "rapid draws of firewall.inbound/outbound values as YAML delivers them (absent, null, non-list, list of 0-4 rule "
            "maps or non-maps); rule maps with proto (known, wrong case, unknown, int, nil, missing), port/code text from a list of "
            "valid and hostile constants plus a grammar (blanks, signs, 0x, leading zeros, 65535/65536/99999/2^32, 1-3 dash-separated "
            "parts) and int/float/bool/nil values, group vs groups (string, list, single-element list, empty list, typed []string, "
            "scalar, null, non-string elements), host, cidr/local_cidr good and bad, ca_name/ca_sha, no selector; a quarter of the "
            "cases go through real YAML text (yaml.Marshal + config.LoadString). Oracle: independent acceptance predicate <=> "
            "AddFirewallRulesFromConfig returns nil (never a panic); accepted lists are translated from the text to reference rules "
            "and Drop verdicts are compared on a sweep (range edges +-1, port 0, fragment, tcp/udp/icmp, random packets). "
            "Non-trivial: list containing a range or a port text that is not a plain number. Distinct by config value (+ node/peer).",
    "assumptions": ["`code` is the deprecated alias of `port`; port text is ignored for proto icmp",
                    "blanks around the two ends of a range are tolerated (pinned by Test_parsePort), nowhere else",
                    "non-string scalars are read as their YAML text"],
    "engine": "E-pure", "technique": "rapid generators against an independent acceptance predicate + reference translation",
}
