# C02 - tampered certificates are rejected (see DESIGN.md section 4)
CHECK = {
    "pkg": "cert", "files": ["cert/certgen_test.go", "cert/c02_test.go"], "run": "^TestC02",
    "quick": {"scale": 1, "shards": 1, "timeout": 600},
    "thorough": {"scale": 5, "shards": 8, "timeout": 1800, "fuzz": [{"target": "FuzzC02Tamper", "seconds": 90}]},
    "rule": "per case one valid certificate (v1/v2 x both curves, issued inside the constraints of a generated CA through Sign, "
            "or validly signed in high-S form) and 8 mutants of its standard, PEM or handshake encoding: semantic forgeries "
            "(exactly one identity field changed to another valid value, original signature kept: name, network address / "
            "length / order / count, unsafe network, group, CA flag, NotBefore, NotAfter, issuer, curve, public key), "
            "wire-level mutations that keep the encoding parseable (unknown protobuf field, padded varint, duplicated scalar, "
            "merged second Details, unpacked repeated field; explicit default curve tag, trailing element, long-form length, "
            "extra TLV inside the signed details, other curve tag), byte flips / inserts / deletes / truncation / extension, "
            "the P-256 low/high-S twin (also over forged content), other public key or curve handed to Recombine, other PEM "
            "banner. Non-trivial: mutant that decodes and differs from the original encoding or Recombine arguments. "
            "Distinct by mutant bytes.",
    "assumptions": ["the identity tuple is read with the package accessors (v2 network lists as sorted sets, v1 in order)",
                    "verification is evaluated at the middle of the original window and at the middle of the mutant's own "
                    "window clamped to the CA window, so a forged validity cannot be rejected for expiry alone",
                    "for every accepted mutant (not only the twin) blocklisting the original's or the mutant's fingerprint "
                    "must reject both"],
    "engine": "E-pure + E-fuzz",
    "technique": "rapid field-aware and byte-level mutation of valid encodings against an identity-tuple oracle; native fuzz "
                 "with the same oracle",
}
