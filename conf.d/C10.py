CHECK = {
    "pkg": ".", "tags": "e2e_testing", "hide": ["interface_emit_test.go"],
    "files": ["netsim/ns_core_test.go", "netsim/ns_world_test.go", "netsim/ns_history_test.go", "netsim/c10_test.go"],
    "run": "^TestC10", "env": {"GOMAXPROCS": "1", "GODEBUG": "asyncpreemptoff=1"},
    "quick": {"scale": 1, "shards": 4, "timeout": 900},
    "thorough": {"scale": 5, "shards": 12, "timeout": 2400},
    "engine": "E-netsim",
    "technique": "rapid-generated handshake histories over real nodes in a synctest bubble with re-delivery of recorded first messages; state-unchanged and byte-identical-reply oracle",
    "rule": "2-3 honest nodes (v1/v2 certificate mixes) build up to 7+ tunnels per pair through 10-70 steps (traffic, re-handshakes from either side, closes, drops, virtual-time gaps of 0, 1 ns, 1 ms ... 3 s so that equal and different handshake timestamps occur); replay steps deliver any first handshake message ever seen again, from the original or a foreign source. Held tunnel: tunnel set and primary unchanged and every handshake packet emitted equals the reply originally seen on the wire. Tunnel gone: if the current primary was accepted as responder and its peer-reported time is >= the creation time of the replayed message, tunnel set and primary unchanged. Non-trivial: a replay delivered after at least one later handshake with the same peer (held non-primary tunnel, or gone tunnel with a newer responder-side primary); distinct by step list.",
    "assumptions": ["the creation time of a first handshake message is the virtual instant it first appears on the wire (the initiator builds and sends it in the same instant)"],
}
