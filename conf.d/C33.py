# C33 - timer wheel (see DESIGN.md section 4)
CHECK = {
    "pkg": ".", "files": ["root/c33_test.go"], "run": "^TestC33",
    "quick": {"scale": 1, "shards": 1, "timeout": 600},
    "thorough": {"scale": 10, "shards": 8, "timeout": 1800},
    "rule": "rapid histories (<= 80 ops) over TimerWheel and LockingTimerWheel with tick 1ns..1min, span = ratio*tick "
            "(+ remainder for non-divisible pairs), ratio 1..3000: Advance by 0 / sub-tick / tick multiples +-1ns / span "
            "/ more than one or several revolutions; Add bursts with timeouts below tick, on tick multiples +-1ns, at "
            "and above span, non-positive; partial and full Purge drains; plus a churn test with more items than the "
            "item cache (50000). Oracle: due time D = addTime + roundUp(clamp(d,[tick,span]), tick); never handed out "
            "before D, handed out after a drain once now >= D + 2 ticks, exactly once overall. Non-trivial: the history "
            "has an advance gap longer than one wheel revolution while items were pending; distinct by full op list.",
    "assumptions": ["callers advance the wheel to the current time before Add (firewall conntrack, connection manager; "
                    "the handshake manager's ticker keeps it within a tick)", "time does not go backwards", "min <= max"],
    "engine": "E-model",
    "technique": "rapid state-machine histories against a due-time reference model over an explicit clock",
}
