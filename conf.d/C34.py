CHECK = {
    "pkg": ".", "tags": "e2e_testing", "hide": ["interface_emit_test.go"], "race": True, "races_judged_by_test": True,
    "files": ["netsim/ns_core_test.go", "netsim/ns_world_test.go", "netsim/c34_test.go"],
    "run": "^TestC34",
    # upstream's in-memory tun (overlay/tun_tester.go, test build only) sends on a channel its Close has
    # closed when a packet is still in flight at shutdown; a kernel tun returns an error there. The harness
    # quiesces traffic before stopping nodes; if it still happens the run is inconclusive, not a violation.
    "infra_panics": [["send on closed channel", "overlay.(*TestTun).Write"]], "env": {"GORACE": "log_path=race.log exitcode=0 halt_on_error=0"},
    "quick": {"scale": 1, "shards": 1, "timeout": 900},
    "thorough": {"scale": 4, "shards": 8, "timeout": 2400},
    "engine": "E-race",
    "technique": "rapid-generated concurrent workloads on real nodes under the Go race detector (real parallelism, outside synctest), with a classified deadlock watchdog",
    "rule": "Each case builds 4-5 real nodes (lighthouse, relay, 2-3 hosts, some direct host paths blocked so relays carry traffic) in a -race binary and runs 2-6 worker goroutines, each executing 5-40 generated operations concurrently: tun packets and bursts in all directions, re-handshakes, CloseTunnel/CloseAllTunnels, reloads of firewall/conntrack, lighthouse and punchy settings, control-API reads (hostmap listings, host info, lighthouse cache, certificates), underlay rebind, SetRemoteForTunnel, with generated yields; then all nodes are stopped concurrently. A race report or a classified lock cycle is a violation; an unclassified hang is inconclusive. Non-trivial: >=2 workers and some node receiving >=3 distinct operation kinds; distinct by workload.",
    "assumptions": ["the race detector only sees interleavings that actually occur; a silent run is evidence, not absence",
                    "deadlock detection is a 60 s watchdog with goroutine-dump classification (>=2 nebula goroutines blocked in Mutex/RWMutex Lock with none runnable)"],
}
