_REWRITE = [
    {"file": "hostmap.go", "subs": [["type HostMap struct {\n\tsync.RWMutex", "type HostMap struct {\n\tverifRWMutexOf[HostMap]"],
                                    ["type RelayState struct {\n\tsync.RWMutex", "type RelayState struct {\n\tverifRWMutexOf[RelayState]"]],
     "append": "\nvar _ sync.Mutex // keeps the import used\n"},
    {"file": "handshake_manager.go", "subs": [["\tsync.RWMutex", "\tverifRWMutexOf[HandshakeManager]"]], "append": "\nvar _ sync.Mutex // keeps the import used\n"},
    {"file": "lighthouse.go", "subs": [["\tsync.RWMutex", "\tverifRWMutexOf[LightHouse]"]], "append": "\nvar _ sync.Mutex // keeps the import used\n"},
    {"file": "remote_list.go", "subs": [["\tsync.RWMutex", "\tverifRWMutexOf[RemoteList]"]], "append": "\nvar _ sync.Mutex // keeps the import used\n"},
]
_FILES = ["netsim/ns_core_test.go", "netsim/ns_world_test.go", "netsim/c34_test.go", "netsim/c34_lock_test.go"]
# upstream's in-memory tun (overlay/tun_tester.go, test build only) sends on a channel its Close has
# closed when a packet is still in flight at shutdown; a kernel tun returns an error there. The harness
# quiesces traffic before stopping nodes; if it still happens the run is inconclusive, not a violation.
_INFRA = [["send on closed channel", "overlay.(*TestTun).Write"]]
CHECK = {
    "parts": [
        # the race detector on the UNMODIFIED sources: the bookkeeping wrapper of the second part takes mutexes of
        # its own on every lock operation, which would order goroutines that the engine itself does not order and
        # hide races (a seeded race in the lighthouse went unreported while both were combined)
        {"pkg": ".", "tags": "e2e_testing", "hide": ["interface_emit_test.go"], "race": True, "races_judged_by_test": True,
         "files": _FILES, "run": "^TestC34", "infra_panics": _INFRA,
         "env": {"GORACE": "log_path=race.log exitcode=0 halt_on_error=0"},
         "quick": {"scale": 1, "shards": 1, "timeout": 900},
         "thorough": {"scale": 4, "shards": 8, "timeout": 2400}},
        # lock discipline: the embedded RWMutexes of the shared tables are replaced (in an overlay copy generated
        # from the current working tree, /repo is not touched) by a wrapper that reports recursive read locking,
        # read->write upgrades and lock-order inversions between the lock classes; no race detector, more workloads
        {"pkg": ".", "tags": "e2e_testing", "hide": ["interface_emit_test.go"],
         "files": _FILES, "rewrite": _REWRITE, "run": "^TestC34", "infra_panics": _INFRA,
         "quick": {"scale": 1.5, "shards": 2, "timeout": 900},
         "thorough": {"scale": 4, "shards": 8, "timeout": 2400}},
    ],
    "engine": "E-race",
    "technique": "rapid-generated concurrent workloads on real nodes under the Go race detector (real parallelism, outside synctest), with a classified deadlock watchdog and a lock-discipline invariant (no recursive read locking, no read-to-write upgrade, one acquisition order between lock classes) checked on every lock operation of the shared tables",
    "rule": "Each case builds 4-5 real nodes (lighthouse, relay, 2-3 hosts, some direct host paths blocked so relays carry traffic) in a -race binary and runs 2-6 worker goroutines, each executing 5-40 generated operations concurrently: tun packets and bursts in all directions, re-handshakes, CloseTunnel/CloseAllTunnels, reloads of firewall/conntrack, lighthouse and punchy settings, control-API reads (hostmap listings, host info, lighthouse cache, certificates), underlay rebind, SetRemoteForTunnel, with generated yields; then all nodes are stopped concurrently. In a quarter of the cases every worker pauses once for about two seconds so that the periodic work (connection-manager traffic checks, primary swaps, relay migration, lighthouse updates) runs against live and duplicate tunnels; `crossRehandshake` makes both ends handshake with each other at the same moment. The embedded RWMutexes of HostMap, RelayState, HandshakeManager, LightHouse and RemoteList are replaced at build time (overlay copy of the current source) by a bookkeeping wrapper. A race report, a classified lock cycle, a goroutine re-acquiring a read lock it holds / upgrading it, or two code paths taking two of these lock classes in opposite orders (deadlocks as soon as a writer queues in between) is a violation; an unclassified hang is inconclusive. Non-trivial: >=2 workers and some node receiving >=3 distinct operation kinds; distinct by workload.",
    "assumptions": ["the race detector only sees interleavings that actually occur; a silent run is evidence, not absence",
                    "deadlock detection is a 60 s watchdog with goroutine-dump classification (>=2 nebula goroutines blocked in Mutex/RWMutex Lock with none runnable)"],
}
