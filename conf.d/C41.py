# C41 - route configuration parses exactly (see DESIGN.md section 4)
CHECK = {
    "pkg": "overlay", "files": ["overlay/c41_test.go"], "run": "^TestC41",
    "quick": {"scale": 1, "shards": 1, "timeout": 600},
    "thorough": {"scale": 6, "shards": 8, "timeout": 1500},
    "engine": "E-pure",
    "technique": "rapid-generated YAML route lists through config.LoadString into parseRoutes/parseUnsafeRoutes "
                 "against an independent per-entry acceptance verdict and expected Route values",
    "rule": "tun.routes / tun.unsafe_routes lists (0-4 entries) rendered as YAML text over 1-3 generated overlay networks "
            "(v4/v6, unmasked as in certificates); mtu/metric/weight drawn as integer, decimal string (plain, leading zeros, "
            "negative, '+'), oversized or malformed string, float, bool, null, list, map, integer beyond int64, with values "
            "steered to the range boundaries; route prefixes inside/equal/wider/disjoint/other family/default; via as address "
            "string, gateway list, empty list, malformed; install as bool/string. Non-trivial: a numeric field given as a "
            "string, or an out-of-range / mistyped value, or a structurally malformed entry. Distinct by networks + YAML text.",
    "assumptions": [
        "ranges: metric 0..MaxInt32, weight 1..MaxInt32, mtu >= 500 (0 = unset for unsafe routes); mtu > 65535, '+N' strings, "
        "ParseBool spellings other than true/false, empty gateway lists and unsafe routes that merely contain an overlay network "
        "are left to the implementation (either refused or loaded with exactly the stated values)",
        "a panic is not a refusal",
    ],
}
