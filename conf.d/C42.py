# C42 - certificate reload never changes a node's identity (see DESIGN.md section 4)
CHECK = {
    "pkg": ".", "files": ["root/c42_test.go"], "run": "^TestC42",
    "quick": {"scale": 1, "shards": 1, "timeout": 600},
    "thorough": {"scale": 10, "shards": 8, "timeout": 1800},
    "engine": "E-model",
    "technique": "rapid-generated reload sequences (config.ReloadConfigString -> PKI reload callback) over a pool of v1/v2 "
                 "certificates, keys, CA bundles and blocklists against a reference identity predicate and trust model; "
                 "connectionManager.makeTrafficDecision for peers the model says are blocklisted / untrusted",
    "rule": "per case: a valid initial configuration (v1, v2 or v1+v2; X25519 or P256), then 1-8 reloads whose bundles are drawn "
            "half as renewals / near misses of the certificates in use and half at random: v1, v2, v1+v2 in both orders, same or "
            "different networks (other network, altered address, altered prefix length, added, removed, reordered, IPv6), other key "
            "pair, other curve, expired certificate, mismatched / garbage key, garbage or missing certificate file, duplicate version, "
            "initiating_version; CA bundle {A,B} subsets, with an expired CA, only expired, garbage, missing file, empty; blocklists "
            "of 0-2 peer fingerprints; pki.disconnect_invalid on/off; four peer tunnels (two CAs). evaluations counts sequences. "
            "Non-trivial: sequence with >= 1 refused and >= 1 accepted reload. Distinct by initial configuration + reload list.",
    "assumptions": [
        "a network counts as removed only if it disappears from both the effective list (v2's networks if present, else v1's) and "
        "the union over the certificates in use; networks contributed by a newly added certificate version are not a change "
        "(reloadCerts documents 'adding certs is fine')",
        "disconnection is observed as the connection manager's decision closeTunnel at the next check (makeTrafficDecision), not as "
        "the executed teardown",
        "whether a harmless reload must be accepted is not part of the statement (labels only)",
    ],
}
