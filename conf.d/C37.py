# C37 - remote address lists are deduplicated and deterministically ordered (DESIGN.md section 4)
CHECK = {
    "pkg": ".", "files": ["root/c37_test.go"], "run": "^TestC37",
    "quick": {"scale": 1, "shards": 1, "timeout": 600},
    "thorough": {"scale": 6, "shards": 6, "timeout": 1500},
    "rule": "rapid state machine over one RemoteList: 1..24 operations (LearnRemote v4/v6/mapped, reported v4/v6 lists of "
            "0..14 entries with a per-call filter, static prepends, relay lists, BlockRemote incl. relayed senders, "
            "ResetBlockedRemotes / RefreshFromHandshake, ResetForOwner, hostname results installed/changed/cleared) over "
            "4 owners and small address/port pools (RFC1918 edges, mapped forms) so that overlaps are frequent; after every "
            "operation CopyAddrs, Len, ForEach and the relay list are compared with a set+key-sort model under freshly "
            "drawn preferred ranges. Non-trivial: >=2 owners contributed the same address and >=1 blocked or preferred "
            "address occurred; distinct by operation history.",
    "assumptions": [
        "hostname results are unmapped addresses (the background resolver unmaps; IP literals in static_host_map are "
        "taken as written)",
        "blocked senders are the unmapped socket addresses the udp listeners deliver",
        "per-source cap of 10 (MaxRemotes) is applied before the per-call filter, as C36 states it",
    ],
    "engine": "E-model", "technique": "rapid state machine against an independent set + sort-key reference",
}
