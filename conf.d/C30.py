# C30 - tunnel teardown decisions follow the liveness policy (see DESIGN.md section 4)
CHECK = {
    "pkg": ".", "files": ["root/c30_test.go"], "run": "^TestC30",
    "quick": {"scale": 1, "shards": 1, "timeout": 600},
    "thorough": {"scale": 10, "shards": 8, "timeout": 1500},
    "rule": "a real connectionManager over a real HostMap/PKI (1-5 tunnels to 3 peers, primary and non-primary, peer "
            "certificates expiring at +30s/+300s/+600s/years under two CAs, tunnels built with the current or the previous "
            "local certificate) is checked 1..40 times with a generated tuple per check: in/out flags, clock advance 0s..10m "
            "(explicit now), forced pendingDeletion, counter from {3, rekey-1, rekey, rekey+1, ceiling-2, ceiling-1, ceiling, "
            "ceiling+7}, disconnect_invalid, drop_inactive, inactivity timeout 20s/60s/10m, blocklist/unblock, CA reload, local "
            "certificate reload, MakePrimary, new tunnel. The decision table transcribed from the property text is compared "
            "with the effects of doTrafficCheck (removed/kept, CloseTunnel and Test packets on a recording underlay, "
            "re-handshake started, pendingDeletion, in/out, lastUsed, next check scheduled exactly once). Non-trivial: history "
            "reaching at least 3 distinct decision-table rows; distinct by operation log.",
    "assumptions": [
        "a re-handshake is started IFF the local certificate changed or the counter reached the rekey threshold (all "
        "certificates are v2 with initiating version 2, so the version rules of tryRehandshake never apply)",
        "whether a non-primary tunnel with inbound traffic is swapped to primary is not asserted (not part of the statement); "
        "only that it is kept and that no other tunnel becomes primary",
        "RehandshakeAfterMessages / RejectAfterMessages constants are taken from the code as the documented thresholds",
        "relay usage migration is not generated at this level",
    ],
    "engine": "E-model", "technique": "rapid histories against a decision table transcribed from the statement; explicit now",
}
