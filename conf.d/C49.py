CHECK = {
    "pkg": ".", "tags": "e2e_testing", "hide": ["interface_emit_test.go"],
    "files": ["netsim/ns_core_test.go", "netsim/ns_smoke_test.go"],
    "run": "^TestNS_Smoke",
    "quick": {"scale": 1, "shards": 1, "timeout": 600},
    "rule": "smoke", "engine": "E-netsim",
}
