CHECK = {
    "parts": [
        {"pkg": ".", "tags": "e2e_testing", "hide": ["interface_emit_test.go"],
         "files": ["netsim/ns_core_test.go", "netsim/ns_world_test.go", "netsim/ns_history_test.go", "netsim/c49_test.go"],
         "run": "^TestC49_StopAnywhere", "env": {"GOMAXPROCS": "1", "GODEBUG": "asyncpreemptoff=1"},
         "quick": {"scale": 1, "shards": 4, "timeout": 900},
         "thorough": {"scale": 6, "shards": 12, "timeout": 2400}},
        # service listeners (DNS responder, prometheus stats, sshd): real loopback sockets, real time, no bubble
        {"pkg": ".", "tags": "e2e_testing", "hide": ["interface_emit_test.go"],
         "files": ["netsim/ns_core_test.go", "netsim/ns_world_test.go", "netsim/ns_history_test.go", "netsim/c49_test.go", "netsim/c49svc_test.go"],
         "run": "^TestC49_Services",
         "quick": {"scale": 1, "shards": 2, "timeout": 900},
         "thorough": {"scale": 10, "shards": 6, "timeout": 2400}},
    ],
    "engine": "E-netsim",
    "technique": "fault injection: Control.Stop at rapid-generated points of multi-node histories inside a synctest bubble; termination, closed-resource and goroutine-survivor oracles",
    "rule": "Generated worlds (2-3 hosts, optional lighthouse and relay, blocked direct paths so relayed tunnels exist) run 3-45 generated steps (traffic, delivery in/out of order, drops, virtual time, closes, re-handshakes, config reloads); Stop is injected before Start, right after Start, mid-history on one node or on all at once, right after a reload, at the end, and optionally twice in a row. Checked: Stop and Wait return within 5 s of virtual time with no delivery; the UDP socket and the tun device refuse writes, the state is Stopped, the context is cancelled, Start is refused; after all nodes are stopped and 10 more virtual seconds passed, no goroutine with nebula frames exists. Non-trivial: a stop injected while a handshake was pending or tunnels (direct or relayed) were live; distinct by step list. Services part: a lone lighthouse with generated subsets of DNS responder / prometheus listener / sshd on loopback ports; 0-6 generated operations (move a service to another port, toggle it, reload unchanged, DNS query, scrape with and without keep-alive, a TCP client that connects to the sshd and never speaks); Stop before Start, right after Start or after the operations; afterwards the process holds no socket on any port a service ever used (from /proc/self) and no goroutine of nebula, its sshd, miekg/dns server or net/http server remains. Non-trivial there: a reload restarted a listener before the stop.",
    "assumptions": ["sshd, dns and stats listeners use real sockets, whose goroutines are not durably blocked for synctest; they are exercised by a second part in real time on loopback, where 'released' is judged 20 s after Stop (observed: milliseconds)"],
}
