# C13 - nonces are never reused and the ceiling is enforced (unit level)
_FILES = ["root/c13_test.go"]
CHECK = {
    "parts": [
        {   # normal build: EncryptLockNeeded drawn per case
            "pkg": ".", "files": _FILES, "run": "^TestC13_",
            "quick": {"scale": 1, "shards": 1, "timeout": 600},
            "thorough": {"scale": 8, "shards": 8, "timeout": 1500},
        },
        {   # the same binary in FIPS mode: lock always needed, AES-GCM is the strictly increasing FIPS AEAD
            "pkg": ".", "files": _FILES, "run": "^TestC13_", "env": {"GODEBUG": "fips140=on"},
            "quick": {"scale": 0.3, "shards": 1, "timeout": 600},
            "thorough": {"scale": 4, "shards": 8, "timeout": 1500},
        },
        {   # real parallel senders under the race detector
            "pkg": ".", "files": _FILES, "run": "^TestC13_Parallel", "race": True,
            "quick": {"scale": 0.5, "shards": 1, "timeout": 600},
            "thorough": {"scale": 4, "shards": 6, "timeout": 1500},
        },
    ],
    "engine": "E-sched",
    "technique": "rapid-generated start/release schedules over a recording, gated AEAD (eKey) around the real send paths, "
                 "invariants over the (key, nonce) log and the emitted datagrams; real parallel senders, also under -race; "
                 "second run of the same binary with GODEBUG=fips140=on",
    "rule": "A case is an Interface with tunnel A (direct, also relay) and tunnel T (behind A), starting counters drawn from "
            "{handshake value 2, mid, RehandshakeAfterMessages+-3, ceiling-k with k up to the number of reservations of the "
            "run, ceiling, ceiling+1..65}, 2-10 senders (sendNoMetrics data/test/close/lighthouse/control direct and "
            "relayed, sendInsideMessage->sendInsideEncrypt with 1-3 segments direct and relayed, SendVia->prepareSendVia), "
            "EncryptLockNeeded drawn (fixed true under FIPS), and a start/release schedule. Non-trivial: >=2 senders were "
            "parked in the same key's cipher (between counter reservation and seal) at once, or the run crossed the "
            "ceiling (>=1 sealed and >=1 refused), or - lock mode - a sender had to wait for the write lock while another "
            "was inside the cipher. Parallel runs (2-16 senders x 5-60 rounds) always count. Distinct by full case text.",
    "assumptions": [
        "counter values more than 65 past the ceiling are not set: reaching them needs >2^40 refused hot-path sends "
        "without a single NextMessageCounter call (RejectHeadroom), which is not searched",
        "interleavings are owned at the cipher call (between reservation and seal); the interleaving inside "
        "NextMessageCounter (Add/Store) is only sampled by the parallel and -race parts",
        "in lock mode, when two senders are free to take the same lock the Go runtime picks the winner (label "
        "lock-handoff-by-runtime); the oracle is evaluated on the recorded log either way",
    ],
}
