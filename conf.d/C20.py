# C20 - packet classification matches what the host will process (see DESIGN.md section 4)
CHECK = {
    "pkg": ".", "files": ["root/c20_test.go"], "run": "^TestC20",
    "quick": {"scale": 1, "shards": 1, "timeout": 600},
    "thorough": {"scale": 10, "shards": 8, "timeout": 1500, "fuzz": [{"target": "FuzzC20", "seconds": 120}]},
    "rule": "verifkit/pktgen draws structured IPv4 (IHL 5-15, options, every flag/offset shape, known and unknown "
            "protocols, wrong IHL / total length) and IPv6 packets (0-12 extension headers in any order: hop-by-hop, "
            "routing, destination, AH, atomic/first/middle/last fragment, look-alike terminal numbers 135/139/140/253/254 "
            "laid out like extension headers, wrong extension lengths, wrong payload length), TCP/UDP/ICMP/ICMPv6/raw upper "
            "layers, header cut short, truncation at header boundaries, byte mutations, raw noise; both directions; plus a "
            "sweep over every truncation point of drawn packets. newPacket is run on a fresh and on a dirty reused "
            "ParsedPacket; every ACCEPTED parse is compared with the independent reference parser verifkit/pkt.Parse "
            "(addresses oriented, protocol, ports / ICMP identifier, non-first and any-fragment flags, header length; IPv6: "
            "never an extension header as protocol, chain fully inside the buffer). The reference is cross-checked against "
            "gopacket wherever gopacket decodes the packet. Non-trivial: the reference sees IPv4 options, >=1 IPv6 "
            "extension header or any fragment; distinct by (direction, packet bytes). Thorough adds the native fuzz target "
            "FuzzC20 with the same oracle inside.",
    "assumptions": [
        "the buffer length is authoritative, declared IPv4 total length / IPv6 payload length are not compared (the inside path passes TSO/USO superpackets)",
        "extension headers are exactly {0,43,44,51,60}; everything else is an upper-layer protocol (as the statement lists them)",
        "ports of protocols other than TCP/UDP and the 'identifier' of ICMP types without one are not compared for IPv4 (legacy: first four upper-layer bytes); for IPv6 they must be 0 as parseV6 documents",
        "IPv6 non-first fragment: IPHdrLen is compared with the offset of the fragment header, as documented on IPv6FindUpperProtocol",
    ],
    "engine": "E-pure + E-fuzz",
    "technique": "rapid structured generation + native fuzzing against an independent reference parser (differential), fresh-vs-reused struct metamorphic check",
}
