# C08 - handshake payload encoding is lossless and wire-compatible (see DESIGN.md section 4)
CHECK = {
    "pkg": "handshake", "files": ["handshake/c08_test.go"], "run": "^TestC08",
    "quick": {"scale": 1, "shards": 1, "timeout": 300},
    "thorough": {"scale": 8, "shards": 8, "timeout": 900, "fuzz": [{"target": "FuzzC08", "seconds": 90}]},
    "rule": "(a) rapid Payload values (cert bytes 0..4096 incl. nil/empty and varint-length edges, indexes/version over full "
            "uint32 with edges, time over uint64) marshalled, read back by UnmarshalPayload and by the official protobuf "
            "runtime (dynamicpb) under the schema parsed from handshake/handshake.proto; (b) dynamic schema messages written "
            "by proto.Marshal with Cookie, Hmac, unknown fields at both levels and 1-3 concatenated encodings (repeated "
            "singular fields, merged Details) read by UnmarshalPayload; (c) wire-level constructions: schema field numbers "
            "with freely chosen wire types, varints above 2^32-1, over-long varints, groups, truncation, byte corruption, "
            "random bytes - classified by an independent wire walker (must-reject / well-formed / malformed) and compared with "
            "the protobuf runtime. Non-trivial: payload with >=3 non-zero fields; schema message with unknown/Cookie/Hmac/"
            "repeated fields; any must-reject case. Distinct by encoding bytes.",
    "assumptions": [
        "handshake/handshake.proto is the wire format other nebula versions speak (the generated NebulaHandshake type no longer exists in this tree)",
        "'known fields' = the five fields of the decoded Payload (Details 1,2,3,5,8); Cookie/Hmac/mistyped Details are skipped by the schema reader and payload.go alike",
        "a parsed schema that differs from the field table the harness was written against makes the check inconclusive (exit 2)",
    ],
    "engine": "E-pure + E-fuzz",
    "technique": "rapid round trip + differential against the official protobuf runtime interpreting handshake.proto + independent wire-walker model; native fuzz target with the same oracle",
}
