# C26 - batched underlay sends survive kernel faults without duplication (see DESIGN.md section 4)
CHECK = {
    "pkg": "udp", "files": ["udp/c26_test.go"], "tags": "", "run": "^TestC26",
    "quick": {"scale": 1, "shards": 1, "timeout": 600},
    "thorough": {"scale": 15, "shards": 8, "timeout": 1500},
    "rule": "a case is one (batch, kernel script) pair: a socketless batchWriter (v4/v6 socket, GSO on/off, maxGSOSegments "
            "63/127, scratch 1..128 slots, debug logging on/off) is reused for 1-3 batches of 0..400 datagrams built from "
            "groups (equal runs, run + shorter tail, >63/>127 small segments, runs crossing 65000 bytes, shrinking, growing, "
            "empty datagrams alone and inside runs, >65000-byte datagrams, two-destination alternation, arbitrary sizes, long "
            "equal runs) over 7 destinations (same host/other port, v4-mapped spelling, v6 destinations a v4 socket cannot "
            "address). sendFn is a model kernel: it decodes every handed mmsghdr from raw memory (sockaddr, iovec array, "
            "UDP_SEGMENT cmsg), identifies datagrams by buffer address, applies sendmmsg/UDP_SEGMENT semantics, and answers "
            "with a rapid-drawn outcome per call (all, short count, zero-progress errno incl. EIO on an offloaded entry, "
            "(0,nil)) under 9 fault profiles. Non-trivial: >=1 short count and >=1 zero-progress error in a batch in which a "
            "multi-datagram (offloaded) entry was offered; distinct by (writer setup, batch layout, kernel trace).",
    "assumptions": [
        "model kernel: datagram j is accepted when an entry whose wire segmentation contains it lies inside a returned count; "
        "a UDP_SEGMENT entry is cut every gso_size bytes, an entry without it is one datagram",
        "segment/byte limits are the writer's documented ones (maxGSOSegments of the writer, 65000 bytes)",
        "only what the statement demands is asserted: at-most-once acceptance, returned count == accepted datagrams, "
        "per-destination order, every entry addressed to its datagrams' own destination, run geometry and limits, datagrams "
        "the socket cannot address never accepted; what the writer does after an offload rejection (fallback strategy) and "
        "completeness of delivery after faults are NOT asserted",
        "empty datagrams have no address to identify them by; they are matched to the next unsent empty datagram of the same "
        "destination in batch order",
        "sendFn outcomes are those sendmmsg(2) can produce: 1..n with nil error, <=0 with an errno, or 0 with nil",
    ],
    "engine": "E-model",
    "technique": "rapid-generated batches and lazily drawn fault scripts against a model kernel decoding real msghdr memory; "
                 "invariants over the accept history",
}
