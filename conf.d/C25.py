# C25 - accelerated checksum equals the RFC 1071 checksum (see DESIGN.md section 4)
CHECK = {
    "pkg": "overlay/checksum", "files": ["overlay/checksum/c25_test.go"], "run": "^TestC25",
    "quick": {"scale": 1, "shards": 1, "timeout": 600},
    "thorough": {"scale": 5, "shards": 6, "timeout": 1500, "fuzz": [{"target": "FuzzC25", "seconds": 60}]},
    "rule": "rapid draws of (length: dense 0..300, +-3 around multiples of 8/16/32/64/128 up to 9000, uniform to 9000, "
            "thin class to 70000; true start address modulo 64 in 0..63 inside a guarded arena; seed: uniform 16 bit "
            "plus {0,1,0xfffe,0xffff,...}; content: all-ff, zero, alternating, ff with a hole, zero with a spike, ramp, "
            "random, mostly-ff, fe/ff mix, drawn bytes, plus 0-3 drawn byte patches). Checksum and checksumAVX2 are "
            "compared with the arithmetic RFC 1071 definition (exact integer sum, ((S-1) mod 0xffff)+1); bytes outside "
            "the buffer are flipped and must not matter. Dense sweep: every length 0..300 x offset 0..63 x 6 seeds x 7 "
            "patterns; all 65536 seeds over drawn buffers. Non-trivial: length >= 32 with offset != 0 or carry-heavy "
            "content; distinct by (length, offset, seed, content parameters).",
    "assumptions": ["CPU has AVX2 (recorded in evidence notes); otherwise only the gvisor fallback is compared",
                    "buffers below 2^32 * 32 bytes (the assembly's documented 64-bit lane headroom)"],
    "engine": "E-pure + E-fuzz",
    "technique": "rapid generators + enumeration + native fuzz target against an arithmetic reference definition",
}
