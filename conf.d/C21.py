# C21 - reject replies are well formed and never answer errors or fragments (see DESIGN.md section 4)
_RULE = ("verifkit/pktgen (profile Mild) draws IPv4/IPv6 packets: TCP with every flag byte, data offsets 5-15, payloads "
         "0-2000 bytes, seq/ack near the wrap; UDP; ICMP/ICMPv6 of every type; IPv4 options; IPv6 extension chains; "
         "atomic/first/non-first fragments; wrong length fields; some truncation. Only packets the classifier accepts are "
         "judged (iputil part: modelled from the reference parse, at most 8 extension headers; root part: the real "
         "newPacket); the rest only for size bounds / no panic. The reply for a roomy buffer is checked by "
         "verifkit/rejectref (strict reference parse with independent RFC 1071 checksums incl. pseudo headers, swapped "
         "addresses/ports, size <= MaxRejectPacketSize and <= cap(out), netfilter/RFC 793 reset numbering, ICMP 3/13 or "
         "1/1 whose body is a prefix of the original with at least header+8 bytes, silence for non-first fragments and "
         "ICMP errors, a reply required otherwise), by gopacket (decode, recompute lengths and checksums, identical "
         "bytes), and by a capacity metamorphic relation (cap >= len(reply): identical reply, cap < len(reply): silence; "
         "capacities drawn around the reply length and over 0..MaxRejectPacketSize+64, dirty buffers of any length). "
         "Non-trivial: original with IPv4 options or IPv6 extension headers, odd upper-layer length, any fragment, or an "
         "ICMP error (must stay silent); distinct by packet bytes.")
CHECK = {
    "parts": [
        {"pkg": "iputil", "files": ["iputil/c21_test.go"], "run": "^TestC21",
         "quick": {"scale": 1, "shards": 1, "timeout": 600},
         "thorough": {"scale": 8, "shards": 6, "timeout": 1500, "fuzz": [{"target": "FuzzC21", "seconds": 90}]}},
        {"pkg": ".", "files": ["root/c21_test.go"], "run": "^TestC21",
         "quick": {"scale": 1, "shards": 1, "timeout": 600},
         "thorough": {"scale": 8, "shards": 4, "timeout": 1500}},
    ],
    "rule": _RULE,
    "assumptions": [
        "caller precondition: only packets accepted by newPacket reach CreateRejectPacket (read from inside.go/outside.go)",
        "ICMPv6 'error messages' that must stay unanswered are the defined types 1-4 (DESIGN.md); other error-class types (0, 5-127) may or may not be answered",
        "TCP packets with fewer than 20 header bytes in the buffer may stay unanswered",
        "the reset's ack number is only compared when the declared IP length equals the buffer (superpackets excluded) and the data offset is sane",
    ],
    "engine": "E-pure",
    "technique": "rapid structured generation against a reference model + gopacket differential + capacity metamorphic relation",
}
