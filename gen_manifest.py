#!/usr/bin/env python3
"""Regenerates MANIFEST.json from checks_conf.py (run after editing the configuration)."""
import json, os, sys
sys.path.insert(0, os.path.dirname(os.path.abspath(__file__)))
import checks_conf

props = [json.loads(l) for l in open(os.path.join(os.path.dirname(os.path.abspath(__file__)), "properties.jsonl"))]
ids = [p["id"] for p in props]
checks = []
na = []
for pid in ids:
    c = checks_conf.CHECKS.get(pid) if pid in checks_conf.READY else None
    if c is None:
        na.append({"property_id": pid, "reason": checks_conf.NOT_CLAIMED.get(pid, "check not built yet in this session; no claim is made")})
        continue
    checks.append({
        "property_id": pid,
        "quick_cmd": "./check %s --tier quick" % pid,
        "thorough_cmd": "./check %s --tier thorough" % pid,
        "evidence_file": "/verif/evidence/%s.json" % pid,
        "replay_cmd_template": "./check %s --replay {path}" % pid,
        "engine": c.get("engine", "E-pure"),
        "level_claimed": {
            "category": "exploration",
            "text": c.get("level_text", "Generated-input search (rapid property-based testing" + (" + native coverage-guided fuzzing" if any((p.get('thorough') or {}).get('fuzz') for p in (c.get('parts') or [c])) else "") + ") against an explicit oracle; bounded exploration, a silent run is evidence, not proof of absence."),
            "design_ref": "DESIGN.md section 4, " + pid,
        },
        "level_note": c.get("level_note", "Trusted: the Go toolchain, pgregory.net/rapid, the reference oracle written in the harness from the property text; " + "; ".join(c.get("assumptions", []))),
        "technique": c.get("technique", "property-based testing (rapid) against a reference oracle"),
    })
m = {
    "version": 1,
    "setup_cmd": "./check --setup",
    "hooks": {
        "guard": "verif",
        "enable": "no source hooks: harness files are injected with `go test -overlay` + `-modfile` from /verif (build tag e2e_testing, which upstream ships, is used for the multi-node simulator); -tags verif is reserved and unused. The lock-discipline part of C34 additionally substitutes, through the same overlay, copies of hostmap.go, handshake_manager.go, lighthouse.go and remote_list.go generated at build time from the current /repo working tree with one textual substitution each (embedded sync.RWMutex -> bookkeeping wrapper, `rewrite` in conf.d/C34.py); nothing is committed to or changed in /repo for it",
        "baseline_off_cmd": "cd /repo && GOFLAGS=-mod=mod go test -vet=off -count=1 -timeout 25m ./...",
        "source_commits": checks_conf.HOOK_COMMITS,
        "add_only": True,
    },
    "engines": checks_conf.ENGINES,
    "checks": checks,
    "not_applicable": na,
    "notes": checks_conf.NOTES,
}
json.dump(m, open(os.path.join(os.path.dirname(os.path.abspath(__file__)), "MANIFEST.json"), "w"), indent=1)
print("checks:", len(checks), "not claimed:", len(na))
